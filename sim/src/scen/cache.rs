//! C10 — a cache is a bounded map: latest value or nothing, never over its limits;
//! reported size/usage equal what is retrievable; disk entries survive a new instance
//! until their TTL ends and are not served after it.

use super::{advance_both, payload, SimKey};
use crate::framework::{shrink_vec, Ctx, Scenario, Tier, Violation};
use crate::prng::Rng;
use crate::seams;
use bytes::Bytes;
use cascette_cache::config::{DiskCacheConfig, MemoryCacheConfig};
use cascette_cache::traits::{AsyncCache, EvictionPolicy, InvalidationStrategy};
use cascette_cache::{DiskCache, MemoryCache};
use serde::{Deserialize, Serialize};
use serde_json::json;
use std::time::Duration;

pub struct Cache;

#[derive(Clone, Debug, Serialize, Deserialize, PartialEq)]
pub enum SutCfg {
    Memory { policy: String, max_entries: usize, max_bytes: Option<usize>, default_ttl_ms: Option<u64>, cleanup: bool },
    Disk { subdir_levels: usize, bg: bool, default_ttl_ms: Option<u64>, max_files: usize },
}

#[derive(Clone, Debug, Serialize, Deserialize, PartialEq)]
pub enum Op {
    Put { k: usize, len: usize },
    PutTtl { k: usize, len: usize, ttl_ns: u64 },
    Get(usize),
    Contains(usize),
    Remove(usize),
    Clear,
    Size,
    Stats,
    Advance { ns: u64 },
    /// disk only: drop the instance and create a new one on the same directory
    Recreate,
}

#[derive(Clone, Debug, Serialize, Deserialize)]
pub struct Case {
    pub sut: SutCfg,
    pub nkeys: usize,
    pub ops: Vec<Op>,
    /// how the keys are spelled: 0 = "k<i>", 1 = "obj.<i>" (one stem, the index after the last dot),
    /// 2 = "versions-1.15.<i>", 3 = "k<i>" and "k<i>.idx" alternating (a key that is another key plus a suffix)
    #[serde(default)]
    pub key_style: u8,
    /// all values of one length are the SAME bytes, whichever key and put they belong to (several keys caching
    /// identical content); otherwise every put writes bytes of its own
    #[serde(default)]
    pub same_values: bool,
}

pub fn key_name(style: u8, i: usize) -> SimKey {
    SimKey(match style {
        1 => format!("obj.{i}"),
        2 => format!("versions-1.15.{i}"),
        3 => {
            if i % 2 == 0 {
                format!("k{}", i / 2)
            } else {
                format!("k{}.idx", i / 2)
            }
        }
        _ => format!("k{i}"),
    })
}

const NS: u64 = 1;
const US: u64 = 1_000 * NS;
const MS: u64 = 1_000 * US;
const S: u64 = 1_000 * MS;
const H: u64 = 3_600 * S;
const NO_TTL: u64 = u64::MAX;

fn policy_of(s: &str) -> EvictionPolicy {
    match s {
        "Lfu" => EvictionPolicy::Lfu,
        "Fifo" => EvictionPolicy::Fifo,
        "Random" => EvictionPolicy::Random,
        "Ttl" => EvictionPolicy::Ttl,
        _ => EvictionPolicy::Lru,
    }
}

enum Sut {
    Mem(MemoryCache<SimKey>),
    Disk(DiskCache<SimKey>),
}
impl Sut {
    fn c(&self) -> &dyn AsyncCache<SimKey> {
        match self {
            Sut::Mem(m) => m,
            Sut::Disk(d) => d,
        }
    }
}

#[derive(Clone, Copy, Debug, PartialEq)]
enum Gone {
    Replaced,
    Removed,
    Cleared,
    Expired,
}

struct MEntry {
    value: Vec<u8>,
    put_lo: u64,
    put_hi: u64,
    ttl: u64,
    maybe_evicted: bool,
    /// written by an earlier instance (disk cache after Recreate)
    old_instance: bool,
    /// no TTL was given and the configuration has `default_ttl: None` ("no expiration" says the config
    /// documentation; the code falls back to 1 h / 24 h): the entry may expire at the fall-back time or never
    soft_ttl: bool,
}
impl MEntry {
    fn surely_expired(&self, t_lo: u64) -> bool {
        self.ttl != NO_TTL && t_lo >= self.put_hi.saturating_add(self.ttl)
    }
    fn surely_live(&self, t_hi: u64) -> bool {
        self.ttl == NO_TTL || t_hi < self.put_lo.saturating_add(self.ttl)
    }
}
#[derive(Default)]
struct KeyModel {
    cur: Option<MEntry>,
    past: Vec<(Vec<u8>, Gone)>,
}

fn build_sut(cfg: &SutCfg, dir: &std::path::Path) -> Result<Sut, String> {
    match cfg {
        SutCfg::Memory { policy, max_entries, max_bytes, default_ttl_ms, cleanup } => {
            let c = MemoryCacheConfig {
                max_entries: *max_entries,
                max_memory_bytes: *max_bytes,
                default_ttl: default_ttl_ms.map(Duration::from_millis),
                eviction_policy: policy_of(policy),
                invalidation_strategy: InvalidationStrategy::default(),
                enable_metrics: true,
                cleanup_interval: Duration::from_secs(60),
            };
            let m = if *cleanup { MemoryCache::new_with_cleanup(c) } else { MemoryCache::new(c) };
            m.map(Sut::Mem).map_err(|e| e.to_string())
        }
        SutCfg::Disk { subdir_levels, bg, default_ttl_ms, max_files } => {
            let c = DiskCacheConfig {
                cache_dir: dir.to_path_buf(),
                max_files: *max_files,
                max_disk_bytes: None,
                default_ttl: default_ttl_ms.map(Duration::from_millis),
                eviction_policy: EvictionPolicy::Lru,
                invalidation_strategy: InvalidationStrategy::default(),
                enable_metrics: true,
                cleanup_interval: Duration::from_secs(300),
                // the sync task only shells out to sync(1); keep it from ticking (its first, immediate tick remains)
                sync_interval: Duration::from_secs(1000 * 24 * 3600),
                use_subdirectories: *subdir_levels > 0,
                subdirectory_levels: (*subdir_levels).max(1),
            };
            let d = if *bg { DiskCache::new_with_background_tasks(c) } else { DiskCache::new(c) };
            d.map(Sut::Disk).map_err(|e| e.to_string())
        }
    }
}

fn op_name(op: &Op) -> &'static str {
    match op {
        Op::Put { .. } => "put",
        Op::PutTtl { .. } => "put_with_ttl",
        Op::Get(_) => "get",
        Op::Contains(_) => "contains",
        Op::Remove(_) => "remove",
        Op::Clear => "clear",
        Op::Size => "size",
        Op::Stats => "stats",
        Op::Advance { .. } => "advance",
        Op::Recreate => "recreate",
    }
}

struct Run<'a> {
    case: &'a Case,
    keys: Vec<SimKey>,
    m: Vec<KeyModel>,
    sut_name: &'static str,
    ctxsig: String,
    recreated: bool,
    /// a background cleanup tick happened while entries existed (disk, bg=true)
    bg_cleaned: bool,
}

impl Run<'_> {
    fn viol(&self, oracle: &str, class: &str, extra: &str, detail: String) -> Violation {
        let sig = format!("C10/{}/{}/{}{}", self.sut_name, class, self.ctxsig, extra);
        Violation::new(oracle, class, sig, detail)
    }

    /// Judge the result of a read of key `k` observed in virtual interval [t_lo, t_hi].
    fn judge_get(&mut self, i: usize, k: usize, got: Option<&[u8]>, t_lo: u64, t_hi: u64, ctx: &mut Ctx) -> Option<Violation> {
        let inst = if self.recreated { ",instance=new" } else { "" };
        let km = &mut self.m[k];
        match (got, km.cur.as_ref()) {
            (None, None) => None,
            (None, Some(e)) => {
                if e.surely_expired(t_lo) {
                    km.past.push((km.cur.take().map(|e| e.value).unwrap_or_default(), Gone::Expired));
                    None
                } else if !e.surely_live(t_hi) {
                    ctx.count("ambiguous_expiry_reads");
                    km.past.push((km.cur.take().map(|e| e.value).unwrap_or_default(), Gone::Expired));
                    None
                } else if e.maybe_evicted {
                    ctx.count("evicted_reads");
                    km.cur = None;
                    None
                } else {
                    let old = e.old_instance;
                    let d = format!(
                        "op #{i} get(k{k}) returned nothing although the value put at +{}ns (ttl {}ns, {} bytes) is live at +{}ns and no eviction was possible since",
                        e.put_lo,
                        e.ttl,
                        e.value.len(),
                        t_hi
                    );
                    Some(self.viol("C10.get.latest_or_nothing", "lost_value", if old { ",by=new_instance" } else { inst }, d))
                }
            }
            (Some(v), cur) => {
                if let Some(e) = cur {
                    if e.value == v {
                        if e.surely_expired(t_lo) && !e.soft_ttl {
                            let old = e.old_instance;
                            let d = format!(
                                "op #{i} get(k{k}) served a value whose time-to-live ended: put at +{}..{}ns with ttl {}ns, read at +{}ns{}",
                                e.put_lo,
                                e.put_hi,
                                e.ttl,
                                t_lo,
                                if old { " by a new instance on the same directory" } else { "" }
                            );
                            return Some(self.viol("C10.get.not_expired", "expired_value_served", if old { ",by=new_instance" } else { ",by=same_instance" }, d));
                        }
                        if let Some(e) = km.cur.as_mut() {
                            e.maybe_evicted = false;
                        }
                        return None;
                    }
                }
                // not the current value: classify
                let class = if let Some((_, why)) = km.past.iter().rev().find(|(pv, _)| pv.as_slice() == v) {
                    match why {
                        Gone::Replaced => "replaced_value_served",
                        Gone::Removed => "removed_value_served",
                        Gone::Cleared => "cleared_value_served",
                        Gone::Expired => "expired_value_served",
                    }
                } else if self.m.iter().enumerate().any(|(j, o)| j != k && (o.cur.as_ref().is_some_and(|e| e.value == v) || o.past.iter().any(|(pv, _)| pv.as_slice() == v))) {
                    "other_keys_value"
                } else {
                    "garbage_value"
                };
                let d = format!(
                    "op #{i} get(k{k}) returned {} bytes ({}) that are not the latest put for the key ({})",
                    v.len(),
                    hex::encode(&v[..v.len().min(12)]),
                    match self.m[k].cur.as_ref() {
                        Some(e) => format!("latest is {} bytes {}", e.value.len(), hex::encode(&e.value[..e.value.len().min(12)])),
                        None => "the model holds nothing for it".into(),
                    }
                );
                Some(self.viol("C10.get.latest_or_nothing", class, inst, d))
            }
        }
    }
}

impl Scenario for Cache {
    type Case = Case;
    fn property(&self) -> &'static str {
        "C10"
    }
    fn name(&self) -> &'static str {
        "cache"
    }
    fn level(&self) -> &'static str {
        "exploration"
    }
    fn rule(&self) -> &'static str {
        "Seeded histories (3-40 ops) of put/put_with_ttl/get/contains/remove/clear/size/stats/advance(+recreate for disk) on the real MemoryCache (5 eviction policies, max_entries 1..23 / 1000 / usize::MAX, default TTL none / 1 h / 50 ms / 0, max_memory_bytes None/1..1000, values 0..2x the byte limit, key population > capacity; on disk one run in 150 with one value of 16 MiB -1/+0/+1/+4096 bytes (the large-file read path); keys spelled k<i>, or in one run in three obj.<i> / versions-1.15.<i> / k<i> + k<i>.idx - equal up to their last dot, or one a prefix of the other; in one run in eight all values of one length are the same bytes whichever key they are put under) and the real DiskCache (with/without sub-directories, with/without background tasks) under the virtual clock. Every read is judged against a map-with-expiry model ('latest value or nothing', nothing only if expired/removed/possibly evicted); bounds after every op; reported size/usage vs. what a probe of every key retrieves at the end; disk: a new instance must serve until the TTL ends and not after. Non-trivial = >= 2 state-changing ops; distinct = hash of (config, ops, observed results)."
    }
    fn assumptions(&self) -> Vec<&'static str> {
        vec![
            "clock jumps never land within 1us of an expiry instant, so the 1ns-per-read tick cannot decide a comparison (reads inside that window are counted as ambiguous and not judged)",
            "eviction is 'possible' whenever the model's upper bound on stored entries/bytes reaches a configured limit at a put (over-approximation: relaxes, never tightens)",
            "contains() is judged one way only: true requires a live entry in the model",
            "benign key strings (letters, digits, dots and dashes): path confinement is C20 and not exercised here",
        ]
    }
    fn components(&self) -> Vec<(&'static str, &'static str)> {
        vec![
            ("cascette_cache::MemoryCache (DashMap, counters, eviction policies, expiry)", "real"),
            ("cascette_cache::DiskCache (index, files on tmpfs, temp+fsync+rename, background cleanup task)", "real"),
            ("Instant/SystemTime", "simulated (interposed clock_gettime, virtual)"),
            ("tokio timers (cleanup/sync intervals)", "simulated (paused runtime, advanced together with the libc clock)"),
            ("rand::rng() for random eviction", "simulated (interposed getrandom, seeded)"),
            ("sync(1) child process of the sync task", "stub (PATH is empty, spawn fails, ignored by the code)"),
        ]
    }
    fn runs(&self, tier: Tier) -> u64 {
        match tier {
            Tier::Quick => 200_000,
            Tier::Thorough => 4_000_000,
        }
    }

    fn generate(&self, rng: &mut Rng, _tier: Tier) -> Case {
        let disk = rng.chance(35, 100);
        let ttl_choices = [None, None, None, None, Some(3_600_000u64), Some(3_600_000u64), Some(50), Some(50), Some(0)];
        let sut = if disk {
            SutCfg::Disk {
                subdir_levels: *rng.pick(&[0usize, 0, 1, 2]),
                bg: rng.chance(30, 100),
                default_ttl_ms: *rng.pick(&ttl_choices),
                max_files: *rng.pick(&[1usize, 2, 3, 100_000, 100_000]),
            }
        } else {
            SutCfg::Memory {
                policy: (*rng.pick(&["Lru", "Lfu", "Fifo", "Random", "Ttl"])).to_string(),
                // (from 11 entries up one eviction round removes more than one entry: the target is 90 % of the limit)
                max_entries: *rng.pick(&[1usize, 2, 3, 5, 10, 11, 16, 20, 23, 1000, 1000, usize::MAX]),
                max_bytes: *rng.pick(&[None, None, None, Some(1usize), Some(10), Some(100), Some(1000), Some(100_000)]),
                default_ttl_ms: *rng.pick(&ttl_choices),
                cleanup: rng.chance(15, 100),
            }
        };
        let (cap, byte_lim) = match &sut {
            SutCfg::Memory { max_entries, max_bytes, .. } => ((*max_entries).min(1000), max_bytes.unwrap_or(200)),
            SutCfg::Disk { max_files, .. } => ((*max_files).min(6), 200),
        };
        let nkeys = ((cap as f64 * (1.5 + rng.below(16) as f64 / 10.0)) as usize + 1).clamp(2, 40);
        let nops = match rng.below(100) {
            0..=14 => rng.range(2, 4),
            15..=79 => rng.range(5, 14),
            _ => rng.range(15, 40),
        } as usize;
        // swarm weights: put, put_ttl, get, contains, remove, clear, size, stats, advance, recreate
        let mut w = [24u32, 14, 26, 6, 7, 2, 3, 3, 10, if disk { 7 } else { 0 }];
        for (i, wi) in w.iter_mut().enumerate() {
            if i != 0 && i != 2 && rng.chance(20, 100) {
                *wi = 0;
            }
        }
        // u64::MAX stands for Duration::MAX ("never expires"), the one before it for 584 years
        let ttls = [0u64, NS, 50 * MS, S, H, 24 * H, 50 * MS, S, u64::MAX, u64::MAX - 1];
        let advs = [US * 5, 10 * MS, 49 * MS, 51 * MS, 999 * MS, 1001 * MS, 59 * 60 * S, 61 * 60 * S, 23 * H, 25 * H, 6 * 60 * S];
        let mut ops = Vec::with_capacity(nops);
        for _ in 0..nops {
            let k = rng.usize_below(nkeys);
            let len = match rng.below(10) {
                0 => 0,
                1 => 1,
                2..=5 => rng.range(2, 20) as usize,
                6..=7 => rng.range(1, (byte_lim as u64).clamp(1, 4000)) as usize,
                8 => (byte_lim.min(4000)) as usize,
                _ => rng.range(byte_lim.min(4000) as u64, (2 * byte_lim.min(4000)) as u64 + 1) as usize,
            };
            let op = match rng.weighted(&w) {
                0 => Op::Put { k, len },
                1 => Op::PutTtl { k, len, ttl_ns: *rng.pick(&ttls) },
                2 => Op::Get(k),
                3 => Op::Contains(k),
                4 => Op::Remove(k),
                5 => Op::Clear,
                6 => Op::Size,
                7 => Op::Stats,
                8 => Op::Advance { ns: *rng.pick(&advs) },
                _ => Op::Recreate,
            };
            ops.push(op);
        }
        // the disk cache reads files of 16 MiB and more through a path of its own: one disk run in 150 makes one
        // of its puts that large (drawn after everything else)
        if disk && rng.chance(1, 150) {
            let big = (16usize << 20) + *rng.pick(&[0usize, 1, 4096]) - if rng.chance(1, 4) { 1 } else { 0 };
            let puts: Vec<usize> = ops.iter().enumerate().filter(|(_, o)| matches!(o, Op::Put { .. } | Op::PutTtl { .. })).map(|(i, _)| i).collect();
            if !puts.is_empty() {
                let at = puts[rng.usize_below(puts.len())];
                match &mut ops[at] {
                    Op::Put { len, .. } | Op::PutTtl { len, .. } => *len = big,
                    _ => {}
                }
            }
        }
        // the spelling of the keys is drawn last (the rest of the case does not depend on it)
        let key_style = if rng.chance(1, 3) { rng.range(1, 3) as u8 } else { 0 };
        let same_values = rng.chance(1, 8);
        Case { sut, nkeys, ops, key_style, same_values }
    }

    fn execute(&self, case: &Case, ctx: &mut Ctx) -> Option<Violation> {
        let rt = super::paused_runtime();
        rt.block_on(run(case, ctx))
    }

    fn shrink(&self, case: &Case) -> Vec<Case> {
        let mut out = Vec::new();
        for ops in shrink_vec(&case.ops) {
            out.push(Case { ops, ..case.clone() });
        }
        for (i, op) in case.ops.iter().enumerate() {
            let simpler = match op {
                Op::Put { k, len } if *len > 1 => Some(Op::Put { k: *k, len: len / 2 }),
                Op::PutTtl { k, len, ttl_ns } if *len > 1 => Some(Op::PutTtl { k: *k, len: len / 2, ttl_ns: *ttl_ns }),
                Op::Put { k, len } if *k > 0 => Some(Op::Put { k: k - 1, len: *len }),
                Op::Get(k) if *k > 0 => Some(Op::Get(k - 1)),
                _ => None,
            };
            if let Some(s) = simpler {
                let mut ops = case.ops.clone();
                ops[i] = s;
                out.push(Case { ops, ..case.clone() });
            }
        }
        match &case.sut {
            SutCfg::Memory { policy, max_entries, max_bytes, default_ttl_ms, cleanup } => {
                if *cleanup {
                    out.push(Case { sut: SutCfg::Memory { policy: policy.clone(), max_entries: *max_entries, max_bytes: *max_bytes, default_ttl_ms: *default_ttl_ms, cleanup: false }, ..case.clone() });
                }
                if default_ttl_ms.is_some() {
                    out.push(Case { sut: SutCfg::Memory { policy: policy.clone(), max_entries: *max_entries, max_bytes: *max_bytes, default_ttl_ms: None, cleanup: *cleanup }, ..case.clone() });
                }
            }
            SutCfg::Disk { subdir_levels, bg, default_ttl_ms, max_files } => {
                if *bg {
                    out.push(Case { sut: SutCfg::Disk { subdir_levels: *subdir_levels, bg: false, default_ttl_ms: *default_ttl_ms, max_files: *max_files }, ..case.clone() });
                }
                if *subdir_levels > 0 {
                    out.push(Case { sut: SutCfg::Disk { subdir_levels: 0, bg: *bg, default_ttl_ms: *default_ttl_ms, max_files: *max_files }, ..case.clone() });
                }
            }
        }
        out
    }
}

async fn run(case: &Case, ctx: &mut Ctx) -> Option<Violation> {
    let dir = ctx.root.join("cache");
    let mut sut = match build_sut(&case.sut, &dir) {
        Ok(s) => s,
        Err(e) => {
            return Some(Violation::new("C10.construct", "construct_failed", "C10/cache/construct_failed", format!("valid configuration rejected: {e}")));
        }
    };
    // let the freshly spawned interval tasks take their immediate first tick now
    for _ in 0..3 {
        tokio::task::yield_now().await;
    }
    let nkeys = case.nkeys.max(1);
    let (sut_name, ctxsig, policy, max_entries, max_bytes, default_ttl, bg) = match &case.sut {
        SutCfg::Memory { policy, max_entries, max_bytes, default_ttl_ms, .. } => (
            "memory",
            format!("policy={policy}"),
            policy_of(policy),
            *max_entries,
            *max_bytes,
            default_ttl_ms.map(|m| m * MS).unwrap_or(H),
            false,
        ),
        SutCfg::Disk { bg, default_ttl_ms, max_files, .. } => (
            "disk",
            format!("bg={}", *bg as u8),
            EvictionPolicy::Lru,
            *max_files,
            None,
            default_ttl_ms.map(|m| m * MS).unwrap_or(24 * H),
            *bg,
        ),
    };
    let is_mem = sut_name == "memory";
    let no_default_ttl = matches!(&case.sut, SutCfg::Memory { default_ttl_ms: None, .. } | SutCfg::Disk { default_ttl_ms: None, .. });
    let mut r = Run {
        case,
        keys: (0..nkeys).map(|i| key_name(case.key_style, i)).collect(),
        m: (0..nkeys).map(|_| KeyModel::default()).collect(),
        sut_name,
        ctxsig,
        recreated: false,
        bg_cleaned: false,
    };
    let _ = r.case;
    ctx.obs(serde_json::to_string(&case.sut).unwrap_or_default().as_bytes());
    // tokio time (sum of Advance steps) since the current instance's cleanup task started,
    // and the number of 300 s cleanup ticks already taken into account
    let mut tokio_since_start: u64 = 0;
    let mut first_tick_pending = true;

    for (i, op) in case.ops.iter().enumerate() {
        let name = op_name(op);
        ctx.obs(name.as_bytes());
        let t_lo = seams::virt_elapsed_ns();
        match op {
            Op::Put { k, len } | Op::PutTtl { k, len, .. } => {
                let k = *k % nkeys;
                let ttl = if let Op::PutTtl { ttl_ns, .. } = op { *ttl_ns } else { default_ttl };
                let val = if case.same_values { payload(0x5A3E_0000, *len) } else { payload(((i as u64 + 1) << 16) | k as u64, *len) };
                // could this put trigger an eviction? (memory cache only; upper bound on what is stored)
                if !is_mem {
                    // a disk cache may enforce max_files at put time as well as in its cleanup task
                    let present = r.m.iter().filter(|km| km.cur.is_some()).count();
                    if 2 * (present + 1) > max_entries {
                        for km in r.m.iter_mut() {
                            if let Some(e) = km.cur.as_mut() {
                                e.maybe_evicted = true;
                            }
                        }
                    }
                }
                if is_mem {
                    let (cnt, bytes) = r.m.iter().filter_map(|km| km.cur.as_ref()).fold((0usize, 0usize), |a, e| (a.0 + 1, a.1 + e.value.len()));
                    // "at a limit" is taken generously (half full): when and how far a cache evicts near its limits
                    // is tuning the property does not fix; only a cache that is clearly below them must keep everything
                    if 2 * cnt >= max_entries || max_bytes.is_some_and(|mb| 2 * (bytes + *len) > mb) {
                        for km in r.m.iter_mut() {
                            if let Some(e) = km.cur.as_mut() {
                                e.maybe_evicted = true;
                            }
                        }
                        ctx.reached("put_at_limit");
                    }
                }
                let res = if let Op::PutTtl { ttl_ns, .. } = op {
                    sut.c().put_with_ttl(r.keys[k].clone(), Bytes::from(val.clone()), if *ttl_ns == u64::MAX { Duration::MAX } else { Duration::from_nanos(*ttl_ns) }).await
                } else {
                    sut.c().put(r.keys[k].clone(), Bytes::from(val.clone())).await
                };
                let t_hi = seams::virt_elapsed_ns();
                ctx.event(|| json!({"k":"op","op":name,"key":k,"len":len,"ttl_ns":if ttl==NO_TTL {json!(null)} else {json!(ttl)},"ret":res.as_ref().map(|_| "ok").map_err(|e| e.to_string()),"t":t_hi}));
                match res {
                    Ok(()) => {
                        ctx.mutations += 1;
                        let km = &mut r.m[k];
                        if let Some(old) = km.cur.take() {
                            km.past.push((old.value, Gone::Replaced));
                        }
                        // a value larger than the whole byte budget may legitimately not be admitted
                        let oversized = is_mem && max_bytes.is_some_and(|mb| *len > mb);
                        let soft_ttl = matches!(op, Op::Put { .. }) && no_default_ttl;
                        let at_disk_limit = !is_mem && r.m.iter().filter(|km| km.cur.is_some()).count() * 2 + 2 > max_entries;
                        r.m[k].cur = Some(MEntry { value: val, put_lo: t_lo, put_hi: t_hi, ttl, maybe_evicted: oversized || at_disk_limit, old_instance: false, soft_ttl });
                    }
                    Err(e) => {
                        // a value larger than the whole byte budget may be refused with an error instead of being
                        // dropped silently; the previous value of the key may or may not survive that
                        if is_mem && max_bytes.is_some_and(|mb| *len > mb) {
                            ctx.count("oversized_put_refused");
                            if let Some(old) = r.m[k].cur.as_mut() {
                                old.maybe_evicted = true;
                            }
                        } else {
                            return Some(r.viol("C10.op.no_error", "op_error", ",op=put", format!("op #{i} {name}(k{k}, {len} bytes) failed without any injected fault: {e}")));
                        }
                    }
                }
            }
            Op::Get(k) => {
                let k = *k % nkeys;
                let res = sut.c().get(&r.keys[k]).await;
                let t_hi = seams::virt_elapsed_ns();
                ctx.event(|| json!({"k":"op","op":"get","key":k,"ret":match &res {Ok(Some(v)) => json!({"len":v.len(),"head":hex::encode(&v[..v.len().min(8)])}), Ok(None) => json!(null), Err(e) => json!({"err":e.to_string()})},"t":t_hi}));
                match res {
                    Ok(v) => {
                        ctx.obs(&[v.is_some() as u8]);
                        if let Some(v) = &v {
                            ctx.obs(&v[..v.len().min(8)]);
                        }
                        if let Some(viol) = r.judge_get(i, k, v.as_deref(), t_lo, t_hi, ctx) {
                            return Some(viol);
                        }
                    }
                    Err(e) => {
                        return Some(r.viol("C10.op.no_error", "op_error", ",op=get", format!("op #{i} get(k{k}) failed without any injected fault: {e}")));
                    }
                }
            }
            Op::Contains(k) => {
                let k = *k % nkeys;
                let res = sut.c().contains(&r.keys[k]).await;
                let t_hi = seams::virt_elapsed_ns();
                ctx.event(|| json!({"k":"op","op":"contains","key":k,"ret":res.as_ref().map_err(|e| e.to_string()),"t":t_hi}));
                match res {
                    Ok(true) => {
                        ctx.obs(&[1]);
                        match r.m[k].cur.as_ref() {
                            Some(e) if !e.surely_expired(t_lo) || e.soft_ttl => {}
                            Some(e) => {
                                let d = format!("op #{i} contains(k{k}) = true although the entry's ttl ({}ns from +{}ns) ended before +{}ns", e.ttl, e.put_hi, t_lo);
                                let by = if e.old_instance { ",why=expired,by=new_instance" } else { ",why=expired,by=same_instance" };
                                return Some(r.viol("C10.contains.live_only", "contains_phantom", by, d));
                            }
                            None => {
                                return Some(r.viol("C10.contains.live_only", "contains_phantom", ",why=absent", format!("op #{i} contains(k{k}) = true although the key was removed, cleared or never put")));
                            }
                        }
                    }
                    Ok(false) => {
                        ctx.obs(&[0]);
                        // one-way oracle; the memory cache collects an expired entry here
                        let km = &mut r.m[k];
                        if km.cur.as_ref().is_some_and(|e| e.surely_expired(t_lo)) && is_mem {
                            km.past.push((km.cur.take().map(|e| e.value).unwrap_or_default(), Gone::Expired));
                        }
                    }
                    Err(e) => {
                        return Some(r.viol("C10.op.no_error", "op_error", ",op=contains", format!("op #{i} contains(k{k}) failed without any injected fault: {e}")));
                    }
                }
            }
            Op::Remove(k) => {
                let k = *k % nkeys;
                let res = sut.c().remove(&r.keys[k]).await;
                ctx.event(|| json!({"k":"op","op":"remove","key":k,"ret":res.as_ref().map_err(|e| e.to_string())}));
                match res {
                    Ok(b) => {
                        ctx.obs(&[b as u8]);
                        ctx.mutations += 1;
                        let km = &mut r.m[k];
                        if let Some(old) = km.cur.take() {
                            km.past.push((old.value, Gone::Removed));
                        }
                    }
                    Err(e) => {
                        return Some(r.viol("C10.op.no_error", "op_error", ",op=remove", format!("op #{i} remove(k{k}) failed without any injected fault: {e}")));
                    }
                }
            }
            Op::Clear => {
                let res = sut.c().clear().await;
                ctx.event(|| json!({"k":"op","op":"clear","ret":res.as_ref().map_err(|e| e.to_string())}));
                if let Err(e) = res {
                    return Some(r.viol("C10.op.no_error", "op_error", ",op=clear", format!("op #{i} clear() failed without any injected fault: {e}")));
                }
                ctx.mutations += 1;
                for km in r.m.iter_mut() {
                    if let Some(old) = km.cur.take() {
                        km.past.push((old.value, Gone::Cleared));
                    }
                }
            }
            Op::Size | Op::Stats => {
                // observed; judged by the bounds below and by the end-of-run accounting check
                let s = sut.c().size().await;
                let st = sut.c().stats().await;
                ctx.event(|| json!({"k":"op","op":name,"size":s.as_ref().map_err(|e| e.to_string()),"bytes":st.as_ref().map(|x| x.memory_usage_bytes).map_err(|e| e.to_string())}));
                if s.is_err() || st.is_err() {
                    return Some(r.viol("C10.op.no_error", "op_error", ",op=size", format!("op #{i} size()/stats() failed without any injected fault")));
                }
                // The reported figures must lie between what is certainly retrievable now and what may still be
                // present (an expired entry nobody has looked at yet may still be counted: expiry is lazy).
                let t_hi = seams::virt_elapsed_ns();
                let (mut lo_n, mut lo_b, mut hi_n, mut hi_b) = (0usize, 0usize, 0usize, 0usize);
                for km in &r.m {
                    if let Some(e) = &km.cur {
                        hi_n += 1;
                        hi_b += e.value.len();
                        if e.surely_live(t_hi) && !e.maybe_evicted {
                            lo_n += 1;
                            lo_b += e.value.len();
                        }
                    }
                }
                let (n, b) = (s.unwrap_or(0), st.map(|x| x.memory_usage_bytes).unwrap_or(0));
                let by = if r.recreated { ",by=new_instance" } else { "" };
                if n < lo_n || b < lo_b {
                    return Some(r.viol("C10.books.midrun", "figures_below_retrievable", by, format!("op #{i} size()={n} usage={b} bytes, but {lo_n} entries / {lo_b} bytes are certainly retrievable at that moment")));
                }
                if n > hi_n || b > hi_b {
                    return Some(r.viol("C10.books.midrun", "figures_above_present", by, format!("op #{i} size()={n} usage={b} bytes, but at most {hi_n} entries / {hi_b} bytes can be present")));
                }
                ctx.count("midrun_figures_checked");
            }
            Op::Advance { ns } => {
                advance_both(Duration::from_nanos(*ns)).await;
                ctx.event(|| json!({"k":"clock","advance_ns":ns,"t":seams::virt_elapsed_ns()}));
                ctx.obs_u64(*ns);
                if bg {
                    // the disk cleanup task ticks every 300 s: it removes expired entries, entries older
                    // than 24 h, and LRU entries beyond max_files
                    let now = seams::virt_elapsed_ns();
                    // A tick with deadline start + n*300 s (rounded up to tokio's 1 ms timer granularity)
                    // fires during this advance iff before - 1ms < n*300 s <= after; the very first tick
                    // fires at construction or at the first advance after it.
                    let before = tokio_since_start;
                    tokio_since_start = tokio_since_start.saturating_add(*ns);
                    let n_hi = tokio_since_start / (300 * S);
                    let n_lo = before.saturating_sub(MS) / (300 * S);
                    // when exactly the cleanup task ticks (immediate first tick, catch-up bursts, the timer wheel's
                    // granularity) is scheduling detail: any advance of the clock may contain a tick
                    let _ = (n_hi, n_lo);
                    if true {
                        // tokio rounds timer deadlines up to its 1 ms wheel granularity, so the interval's
                        // "immediate" first tick fires at construction only if that instant sits on a
                        // millisecond boundary, and otherwise in whichever advance crosses the next one:
                        // it may fire in any advance until 1 ms (plus the rounding slack) has accumulated
                        if tokio_since_start >= 2 * MS {
                            first_tick_pending = false;
                        }
                        let present = r.m.iter().filter(|km| km.cur.is_some()).count();
                        for km in r.m.iter_mut() {
                            if let Some(e) = km.cur.as_mut() {
                                r.bg_cleaned = true;
                                if 2 * present > max_entries || now.saturating_sub(e.put_lo) >= 24 * H - S {
                                    e.maybe_evicted = true;
                                }
                            }
                        }
                        ctx.reached("disk_cleanup_tick");
                    }
                }
            }
            Op::Recreate => {
                if let SutCfg::Disk { .. } = &case.sut {
                    drop(sut);
                    sut = match build_sut(&case.sut, &dir) {
                        Ok(s) => s,
                        Err(e) => {
                            return Some(r.viol("C10.construct", "construct_failed", "", format!("op #{i} recreate failed: {e}")));
                        }
                    };
                    for _ in 0..3 {
                        tokio::task::yield_now().await;
                    }
                    tokio_since_start = 0;
                    first_tick_pending = true;
                    r.recreated = true;
                    for km in r.m.iter_mut() {
                        if let Some(e) = km.cur.as_mut() {
                            e.old_instance = true;
                        }
                    }
                    ctx.count("recreates");
                    ctx.event(|| json!({"k":"op","op":"recreate"}));
                }
            }
        }

        // ---- bounds after every operation (memory cache, count/size-driven policies) ----
        if is_mem && policy != EvictionPolicy::Ttl {
            let size = sut.c().size().await.unwrap_or(usize::MAX);
            if size > max_entries {
                return Some(r.viol("C10.bounds.entries", "entries_over_limit", "", format!("after op #{i} ({name}) size()={size} > max_entries={max_entries}")));
            }
            if let Some(mb) = max_bytes {
                let used = sut.c().stats().await.map(|s| s.memory_usage_bytes).unwrap_or(usize::MAX);
                if used > mb {
                    let big = matches!(op, Op::Put { len, .. } | Op::PutTtl { len, .. } if *len > mb);
                    return Some(r.viol(
                        "C10.bounds.bytes",
                        "bytes_over_limit",
                        if big { ",value_larger_than_limit" } else { ",values_fit" },
                        format!("after op #{i} ({name}) memory_usage_bytes={used} > max_memory_bytes={mb} (size()={size}, max_entries={max_entries})"),
                    ));
                }
            }
        }
        let mh = r.m.iter().fold(0xcbf2_9ce4_8422_2325u64, |h, km| {
            (h ^ km.cur.as_ref().map(|e| Ctx::hash_of(&e.value) ^ u64::from(e.maybe_evicted)).unwrap_or(7)).wrapping_mul(0x0000_0100_0000_01B3)
        });
        ctx.state(mh);
    }

    // ---- end of run: reported size / usage equal what is retrievable ----
    // pass 1 collects lazily expired entries (and indexes files found by the disk fallback)
    for pass in 0..2 {
        for k in 0..nkeys {
            let t_lo = seams::virt_elapsed_ns();
            let res = sut.c().get(&r.keys[k]).await;
            let t_hi = seams::virt_elapsed_ns();
            match res {
                Ok(v) => {
                    if let Some(viol) = r.judge_get(case.ops.len() + pass, k, v.as_deref(), t_lo, t_hi, ctx) {
                        return Some(viol);
                    }
                }
                Err(e) => {
                    return Some(r.viol("C10.op.no_error", "op_error", ",op=get", format!("final probe get(k{k}) failed without any injected fault: {e}")));
                }
            }
        }
    }
    let mut count_a = 0usize;
    let mut bytes_a = 0usize;
    let mut set_a = Vec::new();
    for k in 0..nkeys {
        if let Ok(Some(v)) = sut.c().get(&r.keys[k]).await {
            count_a += 1;
            bytes_a += v.len();
            set_a.push(k);
        }
    }
    let size = sut.c().size().await.unwrap_or(usize::MAX);
    let used = sut.c().stats().await.map(|s| s.memory_usage_bytes).unwrap_or(usize::MAX);
    let mut set_b = Vec::new();
    for k in 0..nkeys {
        if let Ok(Some(_)) = sut.c().get(&r.keys[k]).await {
            set_b.push(k);
        }
    }
    ctx.event(|| json!({"k":"op","op":"final_accounting","size":size,"usage":used,"retrievable":count_a,"retrievable_bytes":bytes_a}));
    if set_a == set_b {
        let extra = if r.bg_cleaned { ",after_bg_cleanup" } else { "" };
        if size != count_a {
            return Some(r.viol("C10.accounting.size", "size_mismatch", extra, format!("at the end size()={size} but {count_a} entries are actually retrievable ({set_a:?})")));
        }
        if used != bytes_a {
            return Some(r.viol("C10.accounting.usage", "usage_mismatch", extra, format!("at the end the usage figure is {used} bytes but the retrievable values total {bytes_a} bytes")));
        }
    } else {
        ctx.count("accounting_skipped_expiry_between_probes");
    }
    if r.recreated {
        ctx.reached("history_with_new_instance");
    }
    None
}

//! C14 — retries are bounded, ordered and respect backoff limits.
//!
//! Real `RetryPolicy::execute` with a scripted closure under tokio's virtual clock:
//! every sleep is measured exactly; jitter comes from the entropy seam.

use crate::framework::{Ctx, Scenario, Tier, Violation};
use crate::prng::Rng;
use cascette_protocol::error::ProtocolError;
use cascette_protocol::RetryPolicy;
use reqwest::StatusCode;
use serde::{Deserialize, Serialize};
use serde_json::json;
use std::sync::{Arc, Mutex};
use std::time::Duration;

pub struct Retry;

#[derive(Clone, Debug, Serialize, Deserialize)]
pub struct Case {
    pub max_attempts: u32,
    pub initial_ms: u64,
    pub max_ms: u64,
    /// "0" "0.5" "1" "2" "10" "1e300" "NaN" "-1" "-0.0" "inf"
    pub mult: String,
    pub jitter: bool,
    /// build the policy through RetryPolicy::from_env from environment strings
    pub via_env: bool,
    /// outcome sequences: one digit per attempt (see OUTCOMES)
    pub seqs: Vec<Vec<u8>>,
}

/// outcome alphabet: (name, retryable, hint)
const OUTCOMES: [(&str, bool, Option<u64>); 12] = [
    ("Ok", false, None),
    ("Network", true, None),
    ("RateLimited(None)", true, None),
    ("RateLimited(0)", true, Some(0)),
    ("RateLimited(1ms)", true, Some(1)),
    ("RateLimited(7s)", true, Some(7000)),
    ("Parse", false, None),
    ("Timeout", true, None),
    ("ServerError(503)", true, None),
    ("HttpStatus(404)", false, None),
    ("HttpStatus(429)", true, None),
    ("ServiceUnavailable", true, None),
];

fn make_err(o: u8) -> ProtocolError {
    match o {
        1 => ProtocolError::Network(std::io::Error::new(std::io::ErrorKind::ConnectionReset, "reset")),
        2 => ProtocolError::RateLimited { retry_after: None },
        3 => ProtocolError::RateLimited { retry_after: Some(Duration::ZERO) },
        4 => ProtocolError::RateLimited { retry_after: Some(Duration::from_millis(1)) },
        5 => ProtocolError::RateLimited { retry_after: Some(Duration::from_secs(7)) },
        6 => ProtocolError::Parse("bad".into()),
        7 => ProtocolError::Timeout,
        8 => ProtocolError::ServerError(StatusCode::SERVICE_UNAVAILABLE),
        9 => ProtocolError::HttpStatus(StatusCode::NOT_FOUND),
        10 => ProtocolError::HttpStatus(StatusCode::TOO_MANY_REQUESTS),
        _ => ProtocolError::ServiceUnavailable,
    }
}
fn err_tag(e: &ProtocolError) -> u8 {
    match e {
        ProtocolError::Network(_) => 1,
        ProtocolError::RateLimited { retry_after: None } => 2,
        ProtocolError::RateLimited { retry_after: Some(d) } if d.is_zero() => 3,
        ProtocolError::RateLimited { retry_after: Some(d) } if *d == Duration::from_millis(1) => 4,
        ProtocolError::RateLimited { .. } => 5,
        ProtocolError::Parse(_) => 6,
        ProtocolError::Timeout => 7,
        ProtocolError::ServerError(_) => 8,
        ProtocolError::HttpStatus(s) if *s == StatusCode::NOT_FOUND => 9,
        ProtocolError::HttpStatus(_) => 10,
        ProtocolError::ServiceUnavailable => 11,
        _ => 99,
    }
}

const MULTS: [&str; 10] = ["0", "0.5", "1", "2", "10", "1e300", "NaN", "-1", "-0.0", "inf"];
const DURS_MS: [u64; 5] = [0, 1, 100, 10_000, 3_600_000];

fn parse_mult(s: &str) -> f64 {
    match s {
        "NaN" => f64::NAN,
        "inf" => f64::INFINITY,
        other => other.parse().unwrap_or(2.0),
    }
}

impl Scenario for Retry {
    type Case = Case;
    fn property(&self) -> &'static str {
        "C14"
    }
    fn name(&self) -> &'static str {
        "retry"
    }
    fn level(&self) -> &'static str {
        "fault_enumeration"
    }
    fn eval_unit(&self) -> &'static str {
        "one (policy, outcome sequence) execution of RetryPolicy::execute under the virtual clock"
    }
    fn rule(&self) -> &'static str {
        "Run i takes policy #(i mod 3000) of the full grid max_attempts 0..5 x initial_backoff {0,1ms,100ms,10s,1h} x max_backoff {0,1ms,100ms,10s,1h} x multiplier {0,0.5,1,2,10,1e300,NaN,-1,-0.0,inf} x jitter on/off (every second cycle the policy is built through RetryPolicy::from_env from environment strings) and executes, on the real RetryPolicy::execute under tokio's paused clock, ALL outcome sequences up to length 3 plus a seeded sample of longer ones (up to max_attempts+2) over {Ok, Network, Timeout, 503, ServiceUnavailable, 429, RateLimited(None|0|1ms|7s), Parse, 404}. The scripted closure records tokio::time::Instant::now() at every invocation, so every gap is measured exactly; jitter is drawn from the seeded entropy seam. evaluations = executions; non-trivial = the closure was invoked >= 2 times (>= 1 injected failure was retried); distinct = hash of (policy, sequence, measured gaps)."
    }
    fn assumptions(&self) -> Vec<&'static str> {
        vec![
            "tokio's timer granularity is 1 ms: a measured gap may exceed the nominal delay by < 1 ms (+ 1 ms for the jitter's own rounding); measured, see counter max_overshoot_ns",
            "for multipliers that are not finite and non-negative (NaN, -1, inf, 1e300 overflow) only the bounds are judged (gap <= 1.3*max_backoff, no panic, completion), not the exact exponential value",
            "retryable = Network, Timeout, ServerError, ServiceUnavailable, RateLimited, HTTP 429/500/502/503/504; everything else is definitive (the classification the property's statement names)",
        ]
    }
    fn components(&self) -> Vec<(&'static str, &'static str)> {
        vec![
            ("RetryPolicy::execute / from_env, ProtocolError::should_retry / retry_after_hint", "real"),
            ("tokio::time::sleep", "simulated (paused runtime, auto-advance; gaps measured on tokio's clock)"),
            ("rand::rng() jitter", "simulated (interposed getrandom, seeded)"),
            ("the operation being retried", "stub (scripted closure returning the generated outcome sequence)"),
        ]
    }
    fn runs(&self, tier: Tier) -> u64 {
        match tier {
            Tier::Quick => 6_000,
            Tier::Thorough => 120_000,
        }
    }

    fn generate(&self, rng: &mut Rng, _tier: Tier) -> Case {
        // NOTE: the policy index is taken from the first draw so that consecutive run indices do
        // not matter; coverage of the whole grid is reported by the evidence (distinct policies)
        let pi = rng.below(3000) as usize;
        let max_attempts = (pi % 6) as u32;
        let initial_ms = DURS_MS[(pi / 6) % 5];
        let max_ms = DURS_MS[(pi / 30) % 5];
        let mult = MULTS[(pi / 150) % 10].to_string();
        let jitter = (pi / 1500) % 2 == 1;
        let via_env = rng.chance(35, 100);
        let mut seqs: Vec<Vec<u8>> = Vec::new();
        // all sequences up to length 3 over a reduced alphabet (one representative per behaviour class)
        let alpha: [u8; 6] = [0, 1, 3, 5, 6, 10];
        for a in alpha {
            seqs.push(vec![a]);
            for b in alpha {
                seqs.push(vec![a, b]);
                for c in alpha {
                    seqs.push(vec![a, b, c]);
                }
            }
        }
        // seeded longer ones over the full alphabet: a run of retryables ended by a terminal (or none)
        let maxlen = max_attempts as usize + 2;
        for _ in 0..48 {
            let len = rng.range(1, maxlen as u64) as usize;
            let retryable: [u8; 9] = [1, 2, 3, 4, 5, 7, 8, 10, 11];
            let mut s: Vec<u8> = (0..len).map(|_| *rng.pick(&retryable)).collect();
            match rng.below(3) {
                0 => s.push(0),
                1 => s.push(*rng.pick(&[6u8, 9])),
                _ => {}
            }
            seqs.push(s);
        }
        Case { max_attempts, initial_ms, max_ms, mult, jitter, via_env, seqs }
    }

    fn execute(&self, case: &Case, ctx: &mut Ctx) -> Option<Violation> {
        ctx.needs_fault = true;
        let rt = super::paused_runtime();
        rt.block_on(run(case, ctx))
    }

    fn shrink(&self, case: &Case) -> Vec<Case> {
        let mut out = Vec::new();
        // one sequence at a time, then shorter sequences
        if case.seqs.len() > 1 {
            for s in &case.seqs {
                out.push(Case { seqs: vec![s.clone()], ..case.clone() });
            }
        } else if let Some(s) = case.seqs.first() {
            for i in 0..s.len() {
                let mut t = s.clone();
                t.remove(i);
                if !t.is_empty() {
                    out.push(Case { seqs: vec![t], ..case.clone() });
                }
            }
            if case.via_env {
                out.push(Case { via_env: false, ..case.clone() });
            }
            if case.jitter {
                out.push(Case { jitter: false, ..case.clone() });
            }
        }
        out
    }
}

fn build_policy(case: &Case) -> RetryPolicy {
    let mult = parse_mult(&case.mult);
    if case.via_env {
        // from_env: backoff in ms, max backoff in whole seconds
        let max_s = case.max_ms / 1000;
        // SAFETY: the worker executes one run at a time and nothing else reads the environment
        #[allow(unsafe_code)]
        unsafe {
            std::env::set_var("CASCETTE_MAX_RETRIES", case.max_attempts.to_string());
            std::env::set_var("CASCETTE_RETRY_BACKOFF", case.initial_ms.to_string());
            std::env::set_var("CASCETTE_MAX_BACKOFF", max_s.to_string());
            std::env::set_var("CASCETTE_BACKOFF_MULTIPLIER", &case.mult);
            std::env::set_var("CASCETTE_RETRY_JITTER", if case.jitter { "true" } else { "false" });
        }
        let p = RetryPolicy::from_env().unwrap_or_default();
        #[allow(unsafe_code)]
        unsafe {
            for v in ["CASCETTE_MAX_RETRIES", "CASCETTE_RETRY_BACKOFF", "CASCETTE_MAX_BACKOFF", "CASCETTE_BACKOFF_MULTIPLIER", "CASCETTE_RETRY_JITTER"] {
                std::env::remove_var(v);
            }
        }
        p
    } else {
        RetryPolicy { max_attempts: case.max_attempts, initial_backoff: Duration::from_millis(case.initial_ms), max_backoff: Duration::from_millis(case.max_ms), multiplier: mult, jitter: case.jitter }
    }
}

async fn run(case: &Case, ctx: &mut Ctx) -> Option<Violation> {
    let policy = build_policy(case);
    ctx.obs(format!("{policy:?}").as_bytes());
    let mult = policy.multiplier;
    let sane_mult = mult.is_finite() && mult >= 0.0 && mult <= 1e6;
    let max_b = policy.max_backoff;
    let msig = if sane_mult { "mult=sane" } else if mult.is_nan() { "mult=nan" } else if mult < 0.0 { "mult=negative" } else { "mult=huge" };
    let mut retried_any = false;
    let t_start = tokio::time::Instant::now();

    for seq in &case.seqs {
        ctx.count("evaluations");
        let calls: Arc<Mutex<Vec<tokio::time::Instant>>> = Arc::new(Mutex::new(Vec::new()));
        let c2 = calls.clone();
        let s2 = seq.clone();
        let max_hint = seq.iter().filter_map(|o| OUTCOMES[*o as usize % 12].2).max().unwrap_or(0);
        let budget = Duration::from_millis(((u64::from(policy.max_attempts) + 1) * (((max_b.as_millis() as u64).max(max_hint) as f64 * 1.3) as u64 + 2)) + 1000);
        let fut = policy.execute(move || {
            let c = c2.clone();
            let s = s2.clone();
            async move {
                let mut g = c.lock().unwrap_or_else(std::sync::PoisonError::into_inner);
                let i = g.len();
                g.push(tokio::time::Instant::now());
                drop(g);
                // past the end of the script the operation keeps failing with a plain retryable error
                let o = s.get(i).copied().unwrap_or(1);
                if o == 0 { Ok::<usize, ProtocolError>(i) } else { Err(make_err(o)) }
            }
        });
        let res = std::panic::AssertUnwindSafe(tokio::time::timeout(budget, fut));
        let res = futures::FutureExt::catch_unwind(res).await;
        let times: Vec<tokio::time::Instant> = calls.lock().unwrap_or_else(std::sync::PoisonError::into_inner).clone();
        let m = times.len();
        let names: Vec<&str> = seq.iter().map(|o| OUTCOMES[*o as usize % 12].0).collect();
        let pol = format!("max_attempts={} initial={:?} max={:?} multiplier={} jitter={}{}", policy.max_attempts, policy.initial_backoff, policy.max_backoff, case.mult, policy.jitter, if case.via_env { " (from_env)" } else { "" });
        let gaps: Vec<Duration> = times.windows(2).map(|w| w[1] - w[0]).collect();
        ctx.event(|| json!({"k":"op","op":"execute","policy":pol,"outcomes":names,"invocations":m,"gaps_ms":gaps.iter().map(|g| g.as_secs_f64()*1000.0).collect::<Vec<_>>()}));
        ctx.obs(seq);
        for g in &gaps {
            ctx.obs_u64(g.as_nanos() as u64);
        }
        if m >= 2 {
            retried_any = true;
        }
        for (i, o) in seq.iter().enumerate() {
            if i < m && *o != 0 {
                ctx.fault(OUTCOMES[*o as usize % 12].0);
            }
        }
        macro_rules! viol {
            ($class:expr, $extra:expr, $detail:expr) => {{
                return Some(Violation::new(concat!("C14.", $class), $class, format!("C14/retry/{}/{}{}", $class, msig, $extra), format!("policy [{pol}], outcomes {names:?}: {}", $detail)));
            }};
        }
        let res = match res {
            Err(_) => {
                let (loc, msg) = crate::framework::take_panic().unwrap_or_default();
                if !crate::framework::panic_in_sut(&loc) {
                    panic!("harness panic at {loc}: {msg}");
                }
                viol!("panic", "", format!("execute panicked after {m} invocation(s) at {loc}: {msg}"));
            }
            Ok(r) => r,
        };
        // ---- gaps (checked first: a call that overran its budget is explained by its gaps) ----
        // Two readings of "exponentially growing" are accepted: the step advances on every retry
        // (b_all) or only on retries that used the computed backoff (b_nohint).
        // ... and for each, two readings of the clamp: min(initial*multiplier^k, max) (closed form)
        // or b(k+1) = min(b(k)*multiplier, max) with b(0) = min(initial, max) (iterative); they only
        // differ when initial > max and multiplier < 1.
        let cap = max_b.as_secs_f64();
        let init = policy.initial_backoff.as_secs_f64();
        // [closed/all, closed/nohint, iterative/all, iterative/nohint]
        let mut bs = [init, init, init.min(cap), init.min(cap)];
        let adv = |b: f64, clamp: bool| -> f64 {
            let n = if clamp { (b * mult).min(cap) } else { b * mult };
            if n.is_nan() || n < 0.0 { 0.0 } else { n }
        };
        for (i, g) in gaps.iter().enumerate() {
            let o = seq.get(i).copied().unwrap_or(1);
            let hint = OUTCOMES[o as usize % 12].2.map(Duration::from_millis);
            let gs = g.as_secs_f64();
            let ms = 0.001;
            ctx.count("gaps_measured");
            if let Some(h) = hint {
                let x = h.as_secs_f64();
                let hi = if policy.jitter { x * 1.3 + 2.0 * ms } else { x + ms };
                if gs + 1e-9 < x || gs > hi + 1e-9 {
                    viol!("hint_not_respected", "", format!("the wait before attempt #{} was {g:?}; the failed attempt carried Retry-After {h:?} (allowed [{x}s, {hi}s])", i + 2));
                }
                if !policy.jitter && (gs - x).abs() < 1e-9 {
                    ctx.count("gaps_exact");
                }
            } else {
                let hi_cap = if policy.jitter { cap * 1.3 + 2.0 * ms } else { cap + ms };
                if gs > hi_cap + 1e-9 {
                    viol!("delay_exceeds_max_backoff", if i == 0 { ",first_delay" } else { ",later_delay" }, format!("the wait before attempt #{} was {g:?}, more than max_backoff {max_b:?} (+30% jitter)", i + 2));
                }
                if sane_mult {
                    let fits = |x: f64| -> bool {
                        let x = x.min(cap);
                        let tol = x * 1e-6 + 1e-9;
                        let hi = if policy.jitter { x * 1.3 + 2.0 * ms } else { x + ms };
                        gs + tol >= x && gs <= hi + tol
                    };
                    if !bs.iter().any(|b| fits(*b)) {
                        viol!("wrong_backoff", "", format!("the wait before attempt #{} was {g:?}; no reading of 'exponential backoff clamped to max_backoff' gives that: closed form {}s / {}s (k = retries / un-hinted retries so far), iterative {}s / {}s", i + 2, bs[0].min(cap), bs[1].min(cap), bs[2].min(cap), bs[3].min(cap)));
                    }
                    if !policy.jitter && bs.iter().any(|b| (gs - b.min(cap)).abs() < 1e-9) {
                        ctx.count("gaps_exact");
                    }
                }
                bs[1] = adv(bs[1], false);
                bs[3] = adv(bs[3], true);
            }
            bs[0] = adv(bs[0], false);
            bs[2] = adv(bs[2], true);
        }
        // ---- number and order of attempts ----
        if m as u64 > u64::from(policy.max_attempts) + 1 {
            viol!("too_many_attempts", "", format!("the operation was invoked {m} times, more than max_attempts + 1 = {}", policy.max_attempts + 1));
        }
        let res = match res {
            Err(_elapsed) => {
                viol!("no_completion", "", format!("execute did not complete within the virtual budget of {budget:?} ({m} invocations so far)"));
            }
            Ok(r) => r,
        };
        if m == 0 {
            viol!("never_invoked", "", "execute returned without invoking the operation".to_string());
        }
        // expected: stop at first Ok / first definitive error / after max_attempts retries
        let mut exp_m = 0usize;
        let mut exp_last = 1u8;
        for i in 0..=policy.max_attempts as usize {
            let o = seq.get(i).copied().unwrap_or(1);
            exp_m = i + 1;
            exp_last = o;
            if !OUTCOMES[o as usize % 12].1 {
                break;
            }
        }
        if m != exp_m {
            let class_extra = if m < exp_m { ",stopped_early" } else { ",continued_after_terminal" };
            viol!("wrong_attempt_count", class_extra, format!("the operation was invoked {m} times; it must stop at the first success or definitive error, or after max_attempts retries: expected {exp_m}"));
        }
        match (&res, exp_last) {
            (Ok(v), 0) if *v == exp_m - 1 => {}
            (Err(e), o) if o != 0 && err_tag(e) == o => {}
            _ => {
                viol!("wrong_result", "", format!("returned {:?}, expected the outcome of attempt #{exp_m} ({})", res.as_ref().map_err(|e| e.to_string()), OUTCOMES[exp_last as usize % 12].0));
            }
        }
    }
    if retried_any {
        ctx.mutations = 2;
    }
    ctx.count_n("tokio_virtual_ms", t_start.elapsed().as_millis() as u64);
    ctx.state(Ctx::hash_of(format!("{}:{}:{}:{}:{}", case.max_attempts, case.initial_ms, case.max_ms, case.mult, case.jitter).as_bytes()));
    None
}

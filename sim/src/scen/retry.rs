//! C14 — retries are bounded, ordered and respect backoff limits.
//!
//! Real `RetryPolicy::execute` with a scripted closure under tokio's virtual clock:
//! every sleep is measured exactly; jitter comes from the entropy seam.

use crate::framework::{Ctx, Scenario, Tier, Violation};
use crate::prng::Rng;
use cascette_protocol::error::ProtocolError;
use cascette_protocol::RetryPolicy;
use reqwest::StatusCode;
use serde::{Deserialize, Serialize};
use serde_json::json;
use std::sync::{Arc, Mutex};
use std::time::Duration;

pub struct Retry;

#[derive(Clone, Debug, Serialize, Deserialize)]
pub struct Case {
    pub max_attempts: u32,
    pub initial_ms: u64,
    pub max_ms: u64,
    /// "0" "0.5" "1" "2" "10" "1e300" "NaN" "-1" "-0.0" "inf"
    pub mult: String,
    pub jitter: bool,
    /// build the policy through RetryPolicy::from_env from environment strings
    pub via_env: bool,
    /// outcome sequences: one digit per attempt (see OUTCOMES)
    pub seqs: Vec<Vec<u8>>,
    /// raw environment strings for from_env (MAX_RETRIES, RETRY_BACKOFF, MAX_BACKOFF, BACKOFF_MULTIPLIER,
    /// RETRY_JITTER); "<unset>" removes the variable. Overrides the typed fields: whatever policy from_env
    /// makes of them is the policy under test (it must not panic).
    #[serde(default)]
    pub env_raw: Option<Vec<String>>,
    /// in addition to the policy grid: a CDN history (CdnClient::download_with_retry over HTTP status classes)
    #[serde(default)]
    pub cdn: Option<super::cdn::CdnCase>,
    /// every attempt takes this long (virtual ms) before it returns its outcome; waits are measured from the END
    /// of one attempt to the START of the next
    #[serde(default)]
    pub attempt_ms: u64,
    /// typed policies only: initial / maximum back-off in NANOSECONDS instead of the grid's milliseconds (values
    /// below, at and between whole milliseconds)
    #[serde(default)]
    pub initial_ns: Option<u64>,
    #[serde(default)]
    pub max_ns: Option<u64>,
}

/// outcome alphabet: (name, hint in ms). Whether an error is retryable is asked of the error itself
/// (`ProtocolError::should_retry`): the property speaks of "retryable" and "non-retryable" errors, it
/// does not say which concrete error is which.
const OUTCOMES: [(&str, Option<u64>); 22] = [
    ("Ok", None),
    ("Network", None),
    ("RateLimited(None)", None),
    ("RateLimited(0)", Some(0)),
    ("RateLimited(1ms)", Some(1)),
    ("RateLimited(7s)", Some(7000)),
    ("Parse", None),
    ("Timeout", None),
    ("ServerError(503)", None),
    ("HttpStatus(404)", None),
    ("HttpStatus(429)", None),
    ("ServiceUnavailable", None),
    ("RateLimited(u64::MAX s)", Some(u64::MAX)),
    ("RateLimited(1e12 s)", Some(1_000_000_000_000_000)),
    ("HttpStatus(500)", None),
    ("HttpStatus(502)", None),
    ("HttpStatus(504)", None),
    ("AllHostsFailed", None),
    ("InvalidEndpoint", None),
    ("Other", None),
    ("InvalidKey", None),
    ("RangeNotSupported", None),
];
const NOUT: usize = 22;

fn hint_of(o: u8) -> Option<Duration> {
    match o as usize % NOUT {
        12 => Some(Duration::from_secs(u64::MAX)),
        i => OUTCOMES[i].1.map(Duration::from_millis),
    }
}

fn make_err(o: u8) -> ProtocolError {
    match o as usize % NOUT {
        1 => ProtocolError::Network(std::io::Error::new(std::io::ErrorKind::ConnectionReset, "reset")),
        2 => ProtocolError::RateLimited { retry_after: None },
        3 | 4 | 5 | 12 | 13 => ProtocolError::RateLimited { retry_after: hint_of(o) },
        6 => ProtocolError::Parse("bad".into()),
        7 => ProtocolError::Timeout,
        8 => ProtocolError::ServerError(StatusCode::SERVICE_UNAVAILABLE),
        9 => ProtocolError::HttpStatus(StatusCode::NOT_FOUND),
        10 => ProtocolError::HttpStatus(StatusCode::TOO_MANY_REQUESTS),
        14 => ProtocolError::HttpStatus(StatusCode::INTERNAL_SERVER_ERROR),
        15 => ProtocolError::HttpStatus(StatusCode::BAD_GATEWAY),
        16 => ProtocolError::HttpStatus(StatusCode::GATEWAY_TIMEOUT),
        17 => ProtocolError::AllHostsFailed,
        18 => ProtocolError::InvalidEndpoint("x".into()),
        19 => ProtocolError::Other("x".into()),
        20 => ProtocolError::InvalidKey,
        21 => ProtocolError::RangeNotSupported,
        _ => ProtocolError::ServiceUnavailable,
    }
}
/// The error an outcome produces, reduced to what identifies it (variant + payload).
fn err_sig(e: &ProtocolError) -> String {
    match e {
        ProtocolError::Network(_) => "Network".into(),
        ProtocolError::RateLimited { retry_after } => format!("RateLimited({retry_after:?})"),
        ProtocolError::HttpStatus(s) => format!("HttpStatus({})", s.as_u16()),
        ProtocolError::ServerError(s) => format!("ServerError({})", s.as_u16()),
        other => format!("{other:?}"),
    }
}
fn retryable(o: u8) -> bool {
    o != 0 && make_err(o).should_retry()
}

const MULTS: [&str; 10] = ["0", "0.5", "1", "2", "10", "1e300", "NaN", "-1", "-0.0", "inf"];
const DURS_MS: [u64; 5] = [0, 1, 100, 10_000, 3_600_000];

fn parse_mult(s: &str) -> f64 {
    match s {
        "NaN" => f64::NAN,
        "inf" => f64::INFINITY,
        other => other.parse().unwrap_or(2.0),
    }
}

impl Scenario for Retry {
    type Case = Case;
    fn property(&self) -> &'static str {
        "C14"
    }
    fn name(&self) -> &'static str {
        "retry"
    }
    fn level(&self) -> &'static str {
        "fault_enumeration"
    }
    fn eval_unit(&self) -> &'static str {
        "one (policy, outcome sequence) execution of RetryPolicy::execute under the virtual clock"
    }
    fn rule(&self) -> &'static str {
        "Run i takes policy #(i mod 3000) of the full grid max_attempts 0..5 x initial_backoff {0,1ms,100ms,10s,1h} x max_backoff {0,1ms,100ms,10s,1h} x multiplier {0,0.5,1,2,10,1e300,NaN,-1,-0.0,inf} x jitter on/off (every second cycle the policy is built through RetryPolicy::from_env from environment strings; one run in eight from RAW strings - huge, negative, fractional, garbage, padded, unset - and a third of those with a retry budget of 255 ... 70000 or at the edges of 32 bits (2^31-1 ... 2^32-1; only sequences that end early), where a few sequences run to the end of the budget and the exact number of invocations is judged) and executes, on the real RetryPolicy::execute under tokio's paused clock, ALL outcome sequences up to length 3 plus a seeded sample of longer ones (up to max_attempts+2) over {Ok, Network, Timeout, 503, ServiceUnavailable, 429, RateLimited(None|0|1ms|7s), Parse, 404}. The scripted closure records tokio::time::Instant::now() at every invocation, so every gap is measured exactly; jitter is drawn from the seeded entropy seam. One run in six additionally drives the real CdnClient::download_with_retry (default policy) over the simulated HTTP transport (scen/cdn.rs: per-request behaviour queues over {ok, 5xx x8, 429 with no / 0 / 1 / 7 / unparsable (word, HTTP date, 2^64, negative, fractional) Retry-After, 400/403/404/410, refused, reset, client time-out, body reset, body stall}); there the number of REQUESTS, the waits between the failure of one request and the start of the next (from the simulated host's log, on tokio's clock), the stop at the first 200 / first definitive status, and the error returned are judged by the same rules. One run in ten makes every attempt take 1 ms / 45 s / 1 h of virtual time (waits are measured from the end of an attempt to the start of the next); one typed run in ten has back-offs given in nanoseconds (1 ns, 999 999 ns, 1.5 ms ...). evaluations = executions; non-trivial = the closure was invoked >= 2 times (>= 1 injected failure was retried); distinct = hash of (policy, sequence, measured gaps)."
    }
    fn assumptions(&self) -> Vec<&'static str> {
        vec![
            "tokio's timer granularity is 1 ms: a measured gap may exceed the nominal delay by < 1 ms (+ 1 ms for the jitter's own rounding); measured, see counter max_overshoot_ns",
            "for multipliers that are not finite and non-negative (NaN, -1, inf, 1e300 overflow) only the bounds are judged (gap <= 1.3*max_backoff, no panic, completion), not the exact exponential value",
            "CDN arm: which configured TTL a downloaded object gets is not judged; a body that breaks off may be classified retryable or not (asked of reqwest's error); a Retry-After of 0 may be honoured or treated as absent",
            "retryable = Network, Timeout, ServerError, ServiceUnavailable, RateLimited, HTTP 429/500/502/503/504; everything else is definitive (the classification the property's statement names)",
        ]
    }
    fn components(&self) -> Vec<(&'static str, &'static str)> {
        vec![
            ("RetryPolicy::execute / from_env, ProtocolError::should_retry / retry_after_hint", "real"),
            ("tokio::time::sleep", "simulated (paused runtime, auto-advance; gaps measured on tokio's clock)"),
            ("rand::rng() jitter", "simulated (interposed getrandom, seeded)"),
            ("the operation being retried", "stub (scripted closure returning the generated outcome sequence)"),
            ("CDN arm: CdnClient::download / download_archive_index / download_with_retry (status -> error mapping, Retry-After parsing), ProtocolCache", "real"),
            ("CDN arm: the CDN host, kernel TCP, TLS, hyper, reqwest connection pool and its 45 s client time-out", "stub (in-process transport behind the http_send seam; the time-out is modelled as ProtocolError::Timeout after 45 s of virtual time)"),
        ]
    }
    fn runs(&self, tier: Tier) -> u64 {
        match tier {
            Tier::Quick => 6_000,
            Tier::Thorough => 600_000,
        }
    }

    fn process_init(&self) {
        super::cdn::process_init();
    }

    fn generate(&self, rng: &mut Rng, _tier: Tier) -> Case {
        // NOTE: the policy index is taken from the first draw so that consecutive run indices do
        // not matter; coverage of the whole grid is reported by the evidence (distinct policies)
        let drawn = rng.below(3000) as usize;
        // inside a batch the grid is walked in order (run i takes policy i mod 3000), so a batch of >= 3000
        // runs covers every policy whatever the seed; outside a batch (sim gen) the index is drawn
        let idx = crate::framework::run_index();
        let pi = if idx == u64::MAX { drawn } else { (idx % 3000) as usize };
        let max_attempts = (pi % 6) as u32;
        let initial_ms = DURS_MS[(pi / 6) % 5];
        let max_ms = DURS_MS[(pi / 30) % 5];
        let mult = MULTS[(pi / 150) % 10].to_string();
        let jitter = (pi / 1500) % 2 == 1;
        let via_env = rng.chance(35, 100);
        let mut seqs: Vec<Vec<u8>> = Vec::new();
        // all sequences up to length 3 over a reduced alphabet (one representative per behaviour class)
        let alpha: [u8; 7] = [0, 1, 3, 5, 6, 10, if rng.chance(1, 2) { 12 } else { 17 }];
        for a in alpha {
            seqs.push(vec![a]);
            for b in alpha {
                seqs.push(vec![a, b]);
                for c in alpha {
                    seqs.push(vec![a, b, c]);
                }
            }
        }
        // seeded longer ones over the full alphabet: a run of retryables ended by a terminal (or none)
        let maxlen = max_attempts as usize + 2;
        for _ in 0..48 {
            let len = rng.range(1, maxlen as u64) as usize;
            // (outcome 13, a hint of 31 000 years, is in the table but not generated: tokio's PAUSED clock cannot
            // jump that far past other timers - a limit of the simulator, not of the code under test; the
            // u64::MAX-second hint is turned into tokio's own "far future" of 30 years and is fine)
            let retryable: [u8; 13] = [1, 2, 3, 4, 5, 7, 8, 10, 11, 12, 14, 15, 16];
            let mut s: Vec<u8> = (0..len).map(|_| *rng.pick(&retryable)).collect();
            match rng.below(3) {
                0 => s.push(0),
                1 => s.push(*rng.pick(&[6u8, 9, 17, 18, 19, 20, 21])),
                _ => {}
            }
            seqs.push(s);
        }
        // one run in eight builds its policy from RAW environment strings: huge, negative, fractional,
        // garbage, padded or unset values (the documented configuration surface)
        let env_raw = if rng.chance(1, 8) {
            let pick = |rng: &mut Rng, good: String| -> String {
                match rng.below(12) {
                    0 => "18446744073709551615".into(),
                    1 => "-1".into(),
                    2 => "1.5".into(),
                    3 => "abc".into(),
                    4 => String::new(),
                    5 => format!(" {good} "),
                    6 => "<unset>".into(),
                    7 => "99999999999999999999999999".into(),
                    _ => good,
                }
            };
            // a retry budget far above the grid's 0..5 (the statement bounds the attempts for EVERY configured
            // number of retries): around the widths of small counters
            let many = if rng.chance(1, 3) { Some((*rng.pick(&["255", "256", "257", "300", "1000", "65535", "65536", "70000", "2147483647", "2147483648", "4294967294", "4294967295"])).to_string()) } else { None };
            Some(vec![
                match many {
                    Some(m) => m,
                    None => pick(rng, max_attempts.to_string()),
                },
                pick(rng, initial_ms.to_string()),
                pick(rng, (max_ms / 1000).to_string()),
                match rng.below(8) {
                    0 => "1e309".into(),
                    1 => "-inf".into(),
                    2 => "abc".into(),
                    3 => "<unset>".into(),
                    _ => mult.clone(),
                },
                (*rng.pick(&["true", "false", "TRUE", "1", "yes", "", "<unset>"])).to_string(),
            ])
        } else {
            None
        };
        // drawn last: one run in six also drives the CDN client's retry loop over the simulated HTTP transport
        let cdn = if rng.chance(1, 6) { Some(super::cdn::generate(rng)) } else { None };
        // drawn last: slow attempts (one run in ten), sub-millisecond back-offs (one typed run in ten)
        let attempt_ms = if rng.chance(1, 10) { *rng.pick(&[1u64, 45_000, 3_600_000]) } else { 0 };
        let (initial_ns, max_ns) = if !via_env && env_raw.is_none() && rng.chance(1, 10) {
            (Some(*rng.pick(&[1u64, 999_999, 1_000_001, 1_500_000])), Some(*rng.pick(&[1u64, 999_999, 1_500_000, 2_000_000_000])))
        } else {
            (None, None)
        };
        Case { max_attempts, initial_ms, max_ms, mult, jitter, via_env, seqs, env_raw, cdn, attempt_ms, initial_ns, max_ns }
    }

    fn execute(&self, case: &Case, ctx: &mut Ctx) -> Option<Violation> {
        ctx.needs_fault = true;
        let rt = super::paused_runtime();
        if let Some(v) = rt.block_on(run(case, ctx)) {
            return Some(v);
        }
        if let Some(cdn) = &case.cdn {
            // a fresh runtime: a policy run that abandoned an absurd wait leaves its runtime unusable
            let rt = super::paused_runtime();
            return rt.block_on(super::cdn::run(cdn, ctx, super::cdn::Owner::C14));
        }
        None
    }

    fn shrink(&self, case: &Case) -> Vec<Case> {
        let mut out = Vec::new();
        if let Some(cdn) = &case.cdn {
            // which half fails? then shrink inside it
            out.push(Case { cdn: None, ..case.clone() });
            if !case.seqs.is_empty() {
                out.push(Case { seqs: vec![], env_raw: None, via_env: false, ..case.clone() });
                return out;
            }
            out.extend(super::cdn::shrink(cdn).into_iter().map(|c| Case { cdn: Some(c), ..case.clone() }));
            return out;
        }
        // one sequence at a time, then shorter sequences
        if case.seqs.len() > 1 {
            for s in &case.seqs {
                out.push(Case { seqs: vec![s.clone()], ..case.clone() });
            }
        } else if let Some(s) = case.seqs.first() {
            for i in 0..s.len() {
                let mut t = s.clone();
                t.remove(i);
                if !t.is_empty() {
                    out.push(Case { seqs: vec![t], ..case.clone() });
                }
            }
            if case.via_env {
                out.push(Case { via_env: false, ..case.clone() });
            }
            if case.jitter {
                out.push(Case { jitter: false, ..case.clone() });
            }
        }
        out
    }
}

const ENV_VARS: [&str; 5] = ["CASCETTE_MAX_RETRIES", "CASCETTE_RETRY_BACKOFF", "CASCETTE_MAX_BACKOFF", "CASCETTE_BACKOFF_MULTIPLIER", "CASCETTE_RETRY_JITTER"];

fn build_policy(case: &Case) -> RetryPolicy {
    let mult = parse_mult(&case.mult);
    // the environment is presented through the getenv seam (an overlay): no setenv in a threaded process
    if let Some(raw) = &case.env_raw {
        let vars: Vec<(&str, Option<&str>)> = ENV_VARS.iter().zip(raw.iter()).map(|(n, v)| (*n, if v == "<unset>" { None } else { Some(v.as_str()) })).collect();
        crate::seams::env_overlay(vars);
        let p = std::panic::catch_unwind(RetryPolicy::from_env);
        crate::seams::env_overlay(vec![]);
        return match p {
            Ok(p) => p.unwrap_or_default(),
            Err(e) => std::panic::resume_unwind(e),
        };
    }
    if case.via_env {
        // from_env: backoff in ms, max backoff in whole seconds
        let vals = [case.max_attempts.to_string(), case.initial_ms.to_string(), (case.max_ms / 1000).to_string(), case.mult.clone(), (if case.jitter { "true" } else { "false" }).to_string()];
        crate::seams::env_overlay(ENV_VARS.iter().zip(vals.iter()).map(|(n, v)| (*n, Some(v.as_str()))).collect());
        let p = std::panic::catch_unwind(RetryPolicy::from_env);
        crate::seams::env_overlay(vec![]);
        match p {
            Ok(p) => p.unwrap_or_default(),
            Err(e) => std::panic::resume_unwind(e),
        }
    } else {
        RetryPolicy {
            max_attempts: case.max_attempts,
            initial_backoff: case.initial_ns.map_or(Duration::from_millis(case.initial_ms), Duration::from_nanos),
            max_backoff: case.max_ns.map_or(Duration::from_millis(case.max_ms), Duration::from_nanos),
            multiplier: mult,
            jitter: case.jitter,
        }
    }
}

async fn run(case: &Case, ctx: &mut Ctx) -> Option<Violation> {
    let policy = match std::panic::catch_unwind(|| build_policy(case)) {
        Ok(p) => p,
        Err(_) => {
            let (loc, msg) = crate::framework::take_panic().unwrap_or_default();
            if !crate::framework::panic_in_sut(&loc) {
                panic!("harness panic at {loc}: {msg}");
            }
            return Some(Violation::new("C14.panic", "panic", "C14/retry/panic/from_env".to_string(), format!("RetryPolicy::from_env panicked on environment {:?} at {loc}: {msg}", case.env_raw)));
        }
    };
    if case.env_raw.is_some() {
        ctx.count("policies_from_raw_environment_strings");
    }
    // a policy requested through well-formed environment strings must be the policy requested
    if case.via_env && case.env_raw.is_none() {
        let m = parse_mult(&case.mult);
        let same_mult = (policy.multiplier.is_nan() && m.is_nan()) || policy.multiplier == m;
        if policy.max_attempts != case.max_attempts || policy.initial_backoff != Duration::from_millis(case.initial_ms) || policy.max_backoff != Duration::from_secs(case.max_ms / 1000) || !same_mult || policy.jitter != case.jitter {
            return Some(Violation::new(
                "C14.from_env",
                "from_env_mismatch",
                "C14/retry/from_env_mismatch".to_string(),
                format!("from_env with MAX_RETRIES={} RETRY_BACKOFF={} (ms) MAX_BACKOFF={} (s) BACKOFF_MULTIPLIER={} RETRY_JITTER={} built {policy:?}", case.max_attempts, case.initial_ms, case.max_ms / 1000, case.mult, case.jitter),
            ));
        }
    }
    ctx.obs(format!("{policy:?}").as_bytes());
    let mult = policy.multiplier;
    // "exponentially growing": the exact sequence is only pinned down for a growth factor >= 1; for a factor
    // below 1 (or not a number) only the upper bound is promised
    let sane_mult = mult.is_finite() && mult >= 1.0 && mult <= 1e6;
    let max_b = policy.max_backoff;
    let msig = if sane_mult { "mult=sane" } else if mult.is_nan() { "mult=nan" } else if mult < 0.0 { "mult=negative" } else { "mult=huge" };
    let mut retried_any = false;
    let t_start = tokio::time::Instant::now();

    // a policy with a large retry budget runs a handful of sequences only (each costs up to max_attempts
    // invocations): four that end within three attempts and six that keep failing
    let large = policy.max_attempts > 50;
    let (mut short_done, mut long_done) = (0usize, 0usize);
    for seq in &case.seqs {
        if large {
            let ends_early = seq.iter().take(3).any(|o| !retryable(*o));
            let slot = if ends_early { &mut short_done } else { &mut long_done };
            // (a budget of billions: only the sequences that end early - the others would need billions of attempts)
            if *slot >= if ends_early { 4 } else if policy.max_attempts > 100_000 { 0 } else { 6 } {
                continue;
            }
            *slot += 1;
            ctx.count("sequences_under_a_large_retry_budget");
        }
        ctx.count("evaluations");
        let calls: Arc<Mutex<Vec<tokio::time::Instant>>> = Arc::new(Mutex::new(Vec::new()));
        let ends: Arc<Mutex<Vec<tokio::time::Instant>>> = Arc::new(Mutex::new(Vec::new()));
        let e2 = ends.clone();
        let attempt = Duration::from_millis(case.attempt_ms);
        let c2 = calls.clone();
        let s2 = seq.clone();
        // hints above a year are "absurd": tokio caps a single sleep at about 30 years, so the wait is only
        // required to be long (>= 1 year) and the call not to panic
        const YEAR_MS: u64 = 365 * 24 * 3600 * 1000;
        let max_hint = seq.iter().filter_map(|o| hint_of(*o)).map(|d| (d.as_millis().min(u128::from(40 * YEAR_MS))) as u64).max().unwrap_or(0);
        let per = ((max_b.as_millis().min(u128::from(40 * YEAR_MS)) as u64).max(max_hint) as f64 * 1.3) as u64 + 2;
        let budget = Duration::from_millis((u64::from(policy.max_attempts) + 1).saturating_mul(per.saturating_add(case.attempt_ms)).saturating_add(1000));
        // waits beyond a year (absurd hint or absurd max_backoff): tokio's PAUSED clock cannot jump more than
        // its timer wheel spans (2^36 ms, about 2.2 years) in one step, so such a call is cut off after 1.9
        // virtual years, judged for panics and bounds only, and ends the run (the runtime is not reused)
        let absurd = budget > Duration::from_millis(YEAR_MS);
        let budget = budget.min(Duration::from_millis(YEAR_MS));
        let fut = policy.execute(move || {
            let c = c2.clone();
            let e = e2.clone();
            let s = s2.clone();
            async move {
                let mut g = c.lock().unwrap_or_else(std::sync::PoisonError::into_inner);
                let i = g.len();
                g.push(tokio::time::Instant::now());
                drop(g);
                if !attempt.is_zero() {
                    tokio::time::sleep(attempt).await;
                }
                e.lock().unwrap_or_else(std::sync::PoisonError::into_inner).push(tokio::time::Instant::now());
                // past the end of the script the operation keeps failing with a plain retryable error
                let o = s.get(i).copied().unwrap_or(1);
                if o == 0 { Ok::<usize, ProtocolError>(i) } else { Err(make_err(o)) }
            }
        });
        // Ordinary calls run under tokio's auto-advancing paused clock with a virtual-time budget. A call that
        // may wait for more than a year is driven by hand instead: tokio's paused clock mis-orders timers that
        // lie further ahead than its wheel spans (2^36 ms), so it must never be allowed to JUMP to such a
        // timer. The call is polled, the clock is moved in half-year steps (which fire everything due), and
        // after three steps the call is abandoned - enough to run into any panic on the way to the long wait.
        let res: Result<Result<Result<usize, ProtocolError>, ()>, Box<dyn std::any::Any + Send>> = if absurd {
            let stepped = async {
                tokio::pin!(fut);
                for _ in 0..4 {
                    match futures::poll!(fut.as_mut()) {
                        std::task::Poll::Ready(r) => return Ok(r),
                        std::task::Poll::Pending => tokio::time::advance(Duration::from_millis(YEAR_MS / 2)).await,
                    }
                }
                Err(())
            };
            futures::FutureExt::catch_unwind(std::panic::AssertUnwindSafe(stepped)).await
        } else {
            futures::FutureExt::catch_unwind(std::panic::AssertUnwindSafe(async { tokio::time::timeout(budget, fut).await.map_err(|_| ()) })).await
        };
        let times: Vec<tokio::time::Instant> = calls.lock().unwrap_or_else(std::sync::PoisonError::into_inner).clone();
        let m = times.len();
        let names: Vec<&str> = seq.iter().map(|o| OUTCOMES[*o as usize % NOUT].0).collect();
        let pol = format!("max_attempts={} initial={:?} max={:?} multiplier={} jitter={}{}", policy.max_attempts, policy.initial_backoff, policy.max_backoff, case.mult, policy.jitter, if case.via_env { " (from_env)" } else { "" });
        // a wait = from the END of one attempt to the START of the next
        let ended: Vec<tokio::time::Instant> = ends.lock().unwrap_or_else(std::sync::PoisonError::into_inner).clone();
        let gaps: Vec<Duration> = times.iter().skip(1).zip(ended.iter()).map(|(start, end)| start.saturating_duration_since(*end)).collect();
        ctx.event(|| json!({"k":"op","op":"execute","policy":pol,"outcomes":names,"invocations":m,"gaps_ms":gaps.iter().map(|g| g.as_secs_f64()*1000.0).collect::<Vec<_>>()}));
        ctx.obs(seq);
        for g in &gaps {
            ctx.obs_u64(g.as_nanos() as u64);
        }
        if m >= 2 {
            retried_any = true;
        }
        for (i, o) in seq.iter().enumerate() {
            if i < m && *o != 0 {
                ctx.fault(OUTCOMES[*o as usize % NOUT].0);
            }
        }
        macro_rules! viol {
            ($class:expr, $extra:expr, $detail:expr) => {{
                return Some(Violation::new(concat!("C14.", $class), $class, format!("C14/retry/{}/{}{}", $class, msig, $extra), format!("policy [{pol}], outcomes {names:?}: {}", $detail)));
            }};
        }
        let res = match res {
            Err(_) => {
                let (loc, msg) = crate::framework::take_panic().unwrap_or_default();
                if !crate::framework::panic_in_sut(&loc) {
                    panic!("harness panic at {loc}: {msg}");
                }
                viol!("panic", "", format!("execute panicked after {m} invocation(s) at {loc}: {msg}"));
            }
            Ok(r) => r,
        };
        // ---- gaps (checked first: a call that overran its budget is explained by its gaps) ----
        // Two readings of "exponentially growing" are accepted: the step advances on every retry
        // (b_all) or only on retries that used the computed backoff (b_nohint).
        // ... and for each, two readings of the clamp: min(initial*multiplier^k, max) (closed form)
        // or b(k+1) = min(b(k)*multiplier, max) with b(0) = min(initial, max) (iterative); they only
        // differ when initial > max and multiplier < 1.
        let cap = max_b.as_secs_f64();
        let init = policy.initial_backoff.as_secs_f64();
        // [closed/all, closed/nohint, iterative/all, iterative/nohint]
        let mut bs = [init, init, init.min(cap), init.min(cap)];
        let adv = |b: f64, clamp: bool| -> f64 {
            let n = if clamp { (b * mult).min(cap) } else { b * mult };
            if n.is_nan() || n < 0.0 { 0.0 } else { n }
        };
        for (i, g) in gaps.iter().enumerate() {
            if absurd {
                // driven in half-year steps: the measured gaps say nothing
                break;
            }
            let o = seq.get(i).copied().unwrap_or(1);
            let gs = g.as_secs_f64();
            let ms = 0.001;
            // a zero hint may be honoured (no wait) or treated as absent (computed backoff)
            let hint = hint_of(o).filter(|h| !(h.is_zero() && gs > 2.0 * ms));
            ctx.count("gaps_measured");
            if let Some(h) = hint.filter(|h| h.as_millis() > u128::from(YEAR_MS)) {
                // (only reachable if the wait was shorter than the cut-off)
                viol!("hint_not_respected", ",absurd_hint", format!("the wait before attempt #{} was {g:?}; the failed attempt carried Retry-After {h:?}", i + 2));
            } else if let Some(h) = hint {
                let x = h.as_secs_f64();
                let hi = if policy.jitter { x * 1.3 + 2.0 * ms } else { x + ms };
                if gs + 1e-9 < x || gs > hi + 1e-9 {
                    viol!("hint_not_respected", "", format!("the wait before attempt #{} was {g:?}; the failed attempt carried Retry-After {h:?} (allowed [{x}s, {hi}s])", i + 2));
                }
                if !policy.jitter && (gs - x).abs() < 1e-9 {
                    ctx.count("gaps_exact");
                }
            } else {
                let hi_cap = if policy.jitter { cap * 1.3 + 2.0 * ms } else { cap + ms };
                if gs > hi_cap + 1e-9 {
                    viol!("delay_exceeds_max_backoff", if i == 0 { ",first_delay" } else { ",later_delay" }, format!("the wait before attempt #{} was {g:?}, more than max_backoff {max_b:?} (+30% jitter)", i + 2));
                }
                if sane_mult {
                    let fits = |x: f64| -> bool {
                        let x = x.min(cap);
                        let tol = x * 1e-6 + 1e-9;
                        let hi = if policy.jitter { x * 1.3 + 2.0 * ms } else { x + ms };
                        gs + tol >= x && gs <= hi + tol
                    };
                    if !bs.iter().any(|b| fits(*b)) {
                        viol!("wrong_backoff", "", format!("the wait before attempt #{} was {g:?}; no reading of 'exponential backoff clamped to max_backoff' gives that: closed form {}s / {}s (k = retries / un-hinted retries so far), iterative {}s / {}s", i + 2, bs[0].min(cap), bs[1].min(cap), bs[2].min(cap), bs[3].min(cap)));
                    }
                    if !policy.jitter && bs.iter().any(|b| (gs - b.min(cap)).abs() < 1e-9) {
                        ctx.count("gaps_exact");
                    }
                }
                bs[1] = adv(bs[1], false);
                bs[3] = adv(bs[3], true);
            }
            bs[0] = adv(bs[0], false);
            bs[2] = adv(bs[2], true);
        }
        // ---- number and order of attempts ----
        if m as u64 > u64::from(policy.max_attempts) + 1 {
            viol!("too_many_attempts", "", format!("the operation was invoked {m} times, more than max_attempts + 1 = {}", u64::from(policy.max_attempts) + 1));
        }
        let res = match res {
            Err(_elapsed) => {
                if absurd {
                    ctx.count("absurd_waits_abandoned_after_2_virtual_years");
                    break;
                }
                viol!("no_completion", "", format!("execute did not complete within the virtual budget of {budget:?} ({m} invocations so far)"));
            }
            Ok(r) => r,
        };
        if m == 0 {
            viol!("never_invoked", "", "execute returned without invoking the operation".to_string());
        }
        // expected: stop at first Ok / first definitive error / after max_attempts retries (past the end of the
        // script every attempt fails with the plain retryable error)
        let mut exp_m = (policy.max_attempts as usize).saturating_add(1);
        let mut exp_last = seq.get(policy.max_attempts as usize).copied().unwrap_or(1);
        for (i, o) in seq.iter().enumerate().take(exp_m) {
            if !retryable(*o) {
                exp_m = i + 1;
                exp_last = *o;
                break;
            }
        }
        let open_ended = false;
        if m != exp_m {
            let class_extra = if m < exp_m { ",stopped_early" } else { ",continued_after_terminal" };
            viol!("wrong_attempt_count", class_extra, format!("the operation was invoked {m} times; it must stop at the first success or definitive error, or after max_attempts retries: expected {exp_m}"));
        }
        match (&res, exp_last) {
            (Ok(v), 0) if *v == exp_m - 1 => {}
            (Err(e), o) if o != 0 && (err_sig(e) == err_sig(&make_err(o)) || (open_ended && err_sig(e) == err_sig(&make_err(1)))) => {}
            _ => {
                viol!("wrong_result", "", format!("returned {:?}, expected the outcome of attempt #{exp_m} ({})", res.as_ref().map_err(|e| e.to_string()), OUTCOMES[exp_last as usize % NOUT].0));
            }
        }
    }
    if retried_any {
        ctx.mutations = 2;
    }
    ctx.count_n("tokio_virtual_ms", t_start.elapsed().as_millis() as u64);
    ctx.state(Ctx::hash_of(format!("{}:{}:{}:{}:{}", case.max_attempts, case.initial_ms, case.max_ms, case.mult, case.jitter).as_bytes()));
    None
}

//! C12 — layered caching is coherent, validated and live.

use super::{advance_both, payload, SimKey};
use crate::framework::{shrink_vec, Ctx, Scenario, Tier, Violation};
use crate::prng::Rng;
use crate::seams;
use bytes::Bytes;
use cascette_cache::config::{DiskCacheConfig, MemoryCacheConfig, MultiLayerCacheConfig, PromotionStrategy};
use cascette_cache::key::CacheKey;
use cascette_cache::traits::{AsyncCache, MultiLayerCache};
use cascette_cache::validation::Md5ValidationHooks;
use cascette_cache::MultiLayerCacheImpl;
use cascette_crypto::ContentKey;
use serde::{Deserialize, Serialize};
use serde_json::json;
use std::sync::Arc;
use std::time::Duration;

pub struct Layers;

#[derive(Clone, Debug, Serialize, Deserialize, PartialEq)]
pub enum Op {
    Put { k: usize, len: usize },
    PutTtl { k: usize, len: usize, ttl_ms: u64 },
    PutToLayer { k: usize, len: usize, layer: usize },
    Get(usize),
    GetFromLayer { k: usize, layer: usize },
    Promote { k: usize, from: usize, to: usize },
    Remove(usize),
    Clear,
    BatchGet(Vec<usize>),
    BatchPut(Vec<(usize, usize)>),
    /// validated put; `wrong` = pass a content key that does not match the value
    PutValidated { k: usize, len: usize, wrong: bool },
    /// put_with_validation_and_ttl with a matching content key
    PutValidatedTtl { k: usize, len: usize, ttl_ms: u64 },
    /// get_with_validation asking for a content key the stored value does NOT hash to
    GetValidatedWrongKey(usize),
    GetValidated(usize),
    Contains(usize),
    Size,
    Advance { ms: u64 },
    /// edit the file of key k in disk layer `layer`
    Corrupt { k: usize, layer: usize, how: u8 },
    Delete { k: usize, layer: usize },
    /// drop the cache and build a new one with the same configuration on the same directories: the memory
    /// layers start empty, the disk layers keep what they held
    Reopen,
    /// a call that names a layer which does not exist (index = number of layers, or usize::MAX): which % 3 = 0
    /// get_from_layer, 1 promote(from = bad), 2 promote(to = bad). It must return and not panic.
    BadLayer { k: usize, which: u8, max: bool },
}

#[derive(Clone, Debug, Serialize, Deserialize)]
pub struct Case {
    /// layer kinds: "m<max_entries>" or "d"
    pub layers: Vec<String>,
    /// OnHit | AfterNHits | Frequency | Age | Manual
    pub strategy: String,
    pub hooks: bool,
    pub nkeys: usize,
    pub ops: Vec<Op>,
}

const MS: u64 = 1_000_000;
const H: u64 = 3_600_000 * MS;

#[derive(Clone)]
struct LE {
    value: Vec<u8>,
    put_lo: u64,
    put_hi: u64,
    ttl: u64,
    maybe_gone: bool,
    /// a promoted copy may keep the source's expiry or get a fresh TTL from the target layer: it is
    /// certainly live until the earlier of the two (`live_until`) and certainly expired after the later
    /// (`dead_after`)
    live_until: Option<u64>,
    dead_after: Option<u64>,
}
impl LE {
    fn surely_expired(&self, t_lo: u64) -> bool {
        t_lo >= self.dead_after.unwrap_or(self.put_hi.saturating_add(self.ttl))
    }
    fn surely_live(&self, t_hi: u64) -> bool {
        t_hi < self.live_until.unwrap_or(self.put_lo.saturating_add(self.ttl))
    }
}

struct KeyM {
    held: Vec<Option<LE>>,
    latest: Option<Vec<u8>>,
    /// content key of the latest validated put
    ck: Option<ContentKey>,
    /// per layer: the file for this key was edited by the fault injector and may still be there
    taint: Vec<bool>,
    /// per layer: the file for this key was deleted by the fault injector
    deleted: Vec<bool>,
    past: Vec<Vec<u8>>,
    /// values put for the key since it was last removed/cleared (a layer that was not invalidated
    /// may still hold one of them)
    since_remove: Vec<Vec<u8>>,
}
impl KeyM {
    fn tainted(&self) -> bool {
        self.taint.iter().any(|t| *t)
    }
}

struct Model {
    keys: Vec<KeyM>,
    /// per layer: Some(max_entries) for memory layers
    mem_max: Vec<Option<usize>>,
    default_ttl: Vec<u64>,
}

impl Model {
    /// a put of `value` for key k lands in `layer`
    fn put_layer(&mut self, k: usize, layer: usize, value: Vec<u8>, ttl: Option<u64>, t_lo: u64, t_hi: u64, ctx: &mut Ctx) {
        if let Some(max) = self.mem_max[layer] {
            let cnt = self.keys.iter().filter(|km| km.held[layer].is_some()).count();
            // generous, as in C10: how close to its limit a layer starts evicting is tuning
            if 2 * (cnt + 1) > max {
                for (j, km) in self.keys.iter_mut().enumerate() {
                    if j != k {
                        if let Some(e) = km.held[layer].as_mut() {
                            e.maybe_gone = true;
                        }
                    }
                }
                ctx.reached("put_into_full_memory_layer");
            }
        }
        let ttl = ttl.unwrap_or(self.default_ttl[layer]);
        self.keys[k].held[layer] = Some(LE { value, put_lo: t_lo, put_hi: t_hi, ttl, maybe_gone: false, live_until: None, dead_after: None });
        self.keys[k].taint[layer] = false;
        self.keys[k].deleted[layer] = false;
    }
    /// a put through the cache API writes one layer and invalidates the key everywhere else
    fn api_put(&mut self, k: usize, layer: usize, value: Vec<u8>, ttl: Option<u64>, t_lo: u64, t_hi: u64, ctx: &mut Ctx) {
        self.put_layer(k, layer, value.clone(), ttl, t_lo, t_hi, ctx);
        for (j, h) in self.keys[k].held.iter_mut().enumerate() {
            if j != layer {
                *h = None;
            }
        }
        for j in 0..self.keys[k].taint.len() {
            if j != layer {
                self.keys[k].taint[j] = false;
                self.keys[k].deleted[j] = false;
            }
        }
        self.new_latest(k, &value);
        self.keys[k].since_remove.push(value);
    }
    fn new_latest(&mut self, k: usize, v: &[u8]) {
        if let Some(old) = self.keys[k].latest.replace(v.to_vec()) {
            if old != v {
                self.keys[k].past.push(old);
            }
        }
    }
    fn drop_key(&mut self, k: usize) {
        let km = &mut self.keys[k];
        for h in km.held.iter_mut() {
            *h = None;
        }
        if let Some(old) = km.latest.take() {
            km.past.push(old);
        }
        for t in km.taint.iter_mut() {
            *t = false;
        }
        for t in km.deleted.iter_mut() {
            *t = false;
        }
        km.since_remove.clear();
        km.ck = None;
    }
}

fn build(case: &Case, root: &std::path::Path) -> Result<(MultiLayerCacheImpl<SimKey>, Model, Vec<Option<std::path::PathBuf>>), String> {
    let mut cfg = MultiLayerCacheConfig::new();
    let mut mem_max = Vec::new();
    let mut default_ttl = Vec::new();
    let mut dirs = Vec::new();
    for (i, l) in case.layers.iter().enumerate() {
        if let Some(n) = l.strip_prefix('m') {
            let max: usize = n.parse().unwrap_or(1).max(1);
            let mut mc = MemoryCacheConfig::new().with_max_entries(max);
            mc.max_memory_bytes = None;
            // the model's TTLs are SET here, not read off the shipped defaults
            mc.default_ttl = Some(Duration::from_secs(3600));
            cfg = cfg.add_memory_layer(mc);
            mem_max.push(Some(max));
            default_ttl.push(H);
            dirs.push(None);
        } else {
            let d = root.join(format!("layer{i}"));
            let mut dc = DiskCacheConfig::new(d.clone()).with_subdirectories(false, 1);
            dc.sync_interval = Duration::from_secs(1000 * 24 * 3600);
            dc.default_ttl = Some(Duration::from_secs(24 * 3600));
            dc.cleanup_interval = Duration::from_secs(300);
            dc.max_files = 100_000;
            cfg = cfg.add_disk_layer(dc);
            mem_max.push(None);
            default_ttl.push(24 * H);
            dirs.push(Some(d));
        }
    }
    cfg = cfg.with_promotion_strategy(match case.strategy.as_str() {
        "AfterNHits" => PromotionStrategy::AfterNHits(2),
        "Frequency" => PromotionStrategy::FrequencyBased { threshold: 0.5 },
        "Age" => PromotionStrategy::AgeBased { min_age: Duration::from_secs(1) },
        "Manual" => PromotionStrategy::Manual,
        _ => PromotionStrategy::OnHit,
    });
    let mut ml = MultiLayerCacheImpl::<SimKey>::new(cfg).map_err(|e| e.to_string())?;
    if case.hooks {
        ml.set_validation_hooks(Some(Arc::new(Md5ValidationHooks::new())));
    }
    let nl = case.layers.len();
    let keys = (0..case.nkeys.max(1)).map(|_| KeyM { held: vec![None; nl], latest: None, ck: None, taint: vec![false; nl], deleted: vec![false; nl], past: vec![], since_remove: vec![] }).collect();
    Ok((ml, Model { keys, mem_max, default_ttl }, dirs))
}

impl Scenario for Layers {
    type Case = Case;
    fn property(&self) -> &'static str {
        "C12"
    }
    fn name(&self) -> &'static str {
        "layers"
    }
    fn level(&self) -> &'static str {
        "exploration"
    }
    fn rule(&self) -> &'static str {
        "Seeded histories (2-25 ops) over put/put_with_ttl/put_to_layer/get/get_from_layer/promote/remove/clear/batch_get/batch_put/put_with_validation/get_with_validation/contains/size/advance on the real MultiLayerCacheImpl with 2-3 layers ([memory(max 1-3 entries), memory|disk, disk?]), each promotion strategy, Md5ValidationHooks on or off, interleaved with corruption or deletion of the disk layers' files, now and then a call naming a layer that does not exist, a promotion pointing the wrong way, an empty batch or a batch of 64, and in one run in six (with a disk layer) ONE reopen (drop the cache, build it again on the same directories: memory layers empty, disk layers as they were); the same key is hit repeatedly (re-get of a key living only in a lower layer is favoured). Oracle: per key the latest put value and what each layer may hold; a get returns the latest value if a layer certainly holds it, nothing otherwise, never an older one; nothing from any layer after remove/clear; validated reads return only bytes hashing to the key and drop detected corruption from all layers; every call returns (virtual-time and real-time watchdogs). Non-trivial = >= 2 state-changing ops; distinct = hash of (config, ops, observed results)."
    }
    fn assumptions(&self) -> Vec<&'static str> {
        vec![
            "once the fault injector has edited a key's file, un-validated reads of THAT key are not judged (without hooks the cache cannot know); validated reads of it are judged in full",
            "eviction in a memory layer is 'possible' whenever the model's upper bound on its entries reaches max_entries at a put into that layer",
            "disk layers are configured large enough (max_files 100000, 24 h TTL) not to evict within a run",
            "a call that does not return within 4 s of real time (operations take microseconds) is a liveness violation",
        ]
    }
    fn components(&self) -> Vec<(&'static str, &'static str)> {
        vec![
            ("MultiLayerCacheImpl (layer walk, promotion tracker, validation hooks, batch ops)", "real"),
            ("MemoryCache / DiskCache layers incl. their interval tasks", "real"),
            ("disk layer files on tmpfs", "real; corruption/deletion injected by the simulator between operations"),
            ("clocks", "simulated (interposed clock_gettime + paused tokio runtime advanced together)"),
            ("sync(1) child process", "stub (empty PATH)"),
        ]
    }
    fn runs(&self, tier: Tier) -> u64 {
        match tier {
            Tier::Quick => 100_000,
            Tier::Thorough => 2_000_000,
        }
    }
    fn watchdog_ms(&self) -> u64 {
        8_000
    }

    fn generate(&self, rng: &mut Rng, _tier: Tier) -> Case {
        let l0 = format!("m{}", rng.range(1, 3));
        let mut layers = vec![l0];
        match rng.below(3) {
            0 => layers.push("m1000".into()),
            _ => layers.push("d".into()),
        }
        if rng.chance(35, 100) {
            layers.push("d".into());
        }
        let nl = layers.len();
        let strategy = (*rng.pick(&["OnHit", "OnHit", "AfterNHits", "Frequency", "Age", "Manual"])).to_string();
        let hooks = rng.chance(50, 100);
        let nkeys = rng.range(2, 4) as usize;
        let nops = match rng.below(100) {
            0..=19 => rng.range(2, 4),
            20..=84 => rng.range(5, 12),
            _ => rng.range(13, 25),
        } as usize;
        // put, put_ttl, put_to_layer, get, get_from_layer, promote, remove, clear, batch_get, batch_put, put_val, get_val, contains, size, advance, corrupt, delete
        let mut w = [12u32, 4, 12, 24, 6, 5, 4, 1, 3, 3, 6, 8, 2, 1, 4, 4, 2];
        for (i, wi) in w.iter_mut().enumerate() {
            if i != 3 && rng.chance(22, 100) {
                *wi = 0;
            }
        }
        let disk_layers: Vec<usize> = layers.iter().enumerate().filter(|(_, l)| l.as_str() == "d").map(|(i, _)| i).collect();
        let mut ops = Vec::with_capacity(nops);
        let mut hot = rng.usize_below(nkeys);
        for _ in 0..nops {
            if rng.chance(15, 100) {
                hot = rng.usize_below(nkeys);
            }
            let k = if rng.chance(65, 100) { hot } else { rng.usize_below(nkeys) };
            let len = *rng.pick(&[0usize, 1, 9, 40, 300]);
            let op = match rng.weighted(&w) {
                0 => Op::Put { k, len },
                1 => Op::PutTtl { k, len, ttl_ms: *rng.pick(&[0u64, 50, 3_600_000, 86_400_000]) },
                2 => Op::PutToLayer { k, len, layer: if rng.chance(75, 100) { rng.range(1, nl as u64 - 1) as usize } else { 0 } },
                3 => Op::Get(k),
                4 => Op::GetFromLayer { k, layer: rng.usize_below(nl) },
                5 => {
                    let from = rng.range(1, nl as u64 - 1) as usize;
                    Op::Promote { k, from, to: rng.usize_below(from) }
                }
                6 => Op::Remove(k),
                7 => Op::Clear,
                8 => Op::BatchGet((0..rng.range(1, 5)).map(|_| rng.usize_below(nkeys)).collect()),
                9 => Op::BatchPut((0..rng.range(1, 5)).map(|_| (rng.usize_below(nkeys), *rng.pick(&[1usize, 9, 40]))).collect()),
                10 => match rng.below(10) {
                    0..=1 => Op::PutValidatedTtl { k, len, ttl_ms: *rng.pick(&[50u64, 1000, 3_600_000]) },
                    2..=3 => Op::GetValidatedWrongKey(k),
                    _ => Op::PutValidated { k, len, wrong: rng.chance(15, 100) },
                },
                11 => Op::GetValidated(k),
                12 => Op::Contains(k),
                13 => Op::Size,
                14 => Op::Advance { ms: *rng.pick(&[1u64, 1000, 30_000, 299_000, 301_000, 3_500_000, 7_200_000]) },
                15 => Op::Corrupt { k, layer: *rng.pick(&disk_layers.iter().copied().chain(std::iter::once(1)).collect::<Vec<_>>()), how: rng.below(4) as u8 },
                _ => Op::Delete { k, layer: *rng.pick(&disk_layers.iter().copied().chain(std::iter::once(1)).collect::<Vec<_>>()) },
            };
            // faults are placed inside interesting activity: a corrupted or deleted file is often
            // followed by a promotion of that key and/or a validating read of it
            let follow = match &op {
                Op::Corrupt { k, layer, .. } | Op::Delete { k, layer } => Some((*k, *layer)),
                _ => None,
            };
            ops.push(op);
            if let Some((k, layer)) = follow {
                if layer > 0 && rng.chance(55, 100) {
                    ops.push(Op::Promote { k, from: layer, to: rng.usize_below(layer) });
                }
                if rng.chance(65, 100) {
                    ops.push(if rng.chance(70, 100) { Op::GetValidated(k) } else { Op::Get(k) });
                }
            }
        }
        // drawn after the history: calls with a layer index that does not exist, a promotion that points the wrong
        // way (from <= to), an empty batch, a batch of 64
        if rng.chance(1, 10) {
            let at = rng.usize_below(ops.len() + 1);
            ops.insert(at, Op::BadLayer { k: rng.usize_below(nkeys), which: rng.below(4) as u8, max: rng.chance(1, 2) });
        }
        if rng.chance(1, 10) {
            let at = rng.usize_below(ops.len() + 1);
            let to = rng.usize_below(nl);
            ops.insert(at, Op::Promote { k: rng.usize_below(nkeys), from: rng.usize_below(to + 1), to });
        }
        if rng.chance(1, 12) {
            let at = rng.usize_below(ops.len() + 1);
            ops.insert(at, match rng.below(3) {
                0 => Op::BatchGet(vec![]),
                1 => Op::BatchPut(vec![]),
                _ => Op::BatchGet((0..64).map(|_| rng.usize_below(nkeys)).collect()),
            });
        }
        // one run in six (with a disk layer) reopens the cache once somewhere in the history; drawn last so
        // that the rest of the case does not depend on it
        if !disk_layers.is_empty() && rng.chance(1, 6) {
            let at = rng.range(1, ops.len() as u64) as usize;
            ops.insert(at.min(ops.len()), Op::Reopen);
        }
        Case { layers, strategy, hooks, nkeys, ops }
    }

    fn execute(&self, case: &Case, ctx: &mut Ctx) -> Option<Violation> {
        let rt = super::paused_runtime();
        rt.block_on(run(case, ctx))
    }

    fn shrink(&self, case: &Case) -> Vec<Case> {
        let mut out = Vec::new();
        for ops in shrink_vec(&case.ops) {
            out.push(Case { ops, ..case.clone() });
        }
        if case.hooks {
            out.push(Case { hooks: false, ..case.clone() });
        }
        if case.strategy != "Manual" {
            out.push(Case { strategy: "Manual".into(), ..case.clone() });
        }
        if case.layers.len() > 2 {
            let mut l = case.layers.clone();
            l.pop();
            let nl = l.len();
            let ok = case.ops.iter().all(|o| match o {
                Op::PutToLayer { layer, .. } | Op::GetFromLayer { layer, .. } | Op::Corrupt { layer, .. } | Op::Delete { layer, .. } => *layer < nl,
                Op::Promote { from, to, .. } => *from < nl && *to < nl,
                _ => true,
            });
            if ok {
                out.push(Case { layers: l, ..case.clone() });
            }
        }
        for (i, op) in case.ops.iter().enumerate() {
            let simpler = match op {
                Op::Put { k, len } if *len > 1 => Some(Op::Put { k: *k, len: 1 }),
                Op::PutToLayer { k, len, layer } if *len > 1 => Some(Op::PutToLayer { k: *k, len: 1, layer: *layer }),
                Op::BatchGet(v) if v.len() > 1 => Some(Op::BatchGet(v[..1].to_vec())),
                Op::BatchGet(v) if v.len() == 1 => Some(Op::Get(v[0])),
                Op::BatchPut(v) if v.len() > 1 => Some(Op::BatchPut(v[..1].to_vec())),
                _ => None,
            };
            if let Some(s) = simpler {
                let mut ops = case.ops.clone();
                ops[i] = s;
                out.push(Case { ops, ..case.clone() });
            }
        }
        out
    }
}

/// The file a disk layer keeps for a key: `<dir>/<key>` today; if the layout ever changes, the file whose
/// content equals what the model says the layer holds (so that faults do not silently become no-ops).
fn backing_file(dir: &std::path::Path, name: &str, content: Option<&[u8]>, ctx: &mut Ctx) -> std::path::PathBuf {
    let p = dir.join(name);
    if p.is_file() {
        return p;
    }
    // (only for values long enough to be unique: short payloads of different keys coincide)
    if let Some(want) = content.filter(|w| w.len() >= 8) {
        let mut stack = vec![dir.to_path_buf()];
        while let Some(d) = stack.pop() {
            for e in std::fs::read_dir(&d).into_iter().flatten().flatten() {
                let q = e.path();
                if q.is_dir() {
                    stack.push(q);
                } else if std::fs::read(&q).is_ok_and(|b| b == want) {
                    ctx.count("fault_target_found_by_content");
                    return q;
                }
            }
        }
        ctx.count("fault_target_not_found");
    }
    p
}

fn val(i: usize, k: usize, len: usize, sub: usize) -> Vec<u8> {
    payload(((i as u64 + 1) << 20) | ((sub as u64) << 12) | k as u64, len)
}

async fn run(case: &Case, ctx: &mut Ctx) -> Option<Violation> {
    let (mut ml, mut m, dirs) = match build(case, &ctx.root) {
        Ok(x) => x,
        Err(e) => return Some(Violation::new("C12.construct", "construct_failed", "C12/layers/construct_failed", format!("valid configuration rejected: {e}"))),
    };
    for _ in 0..3 {
        tokio::task::yield_now().await;
    }
    let nk = case.nkeys.max(1);
    let nl = case.layers.len();
    let keys: Vec<SimKey> = (0..nk).map(SimKey::n).collect();
    let cfgsig = format!("hooks={}", case.hooks as u8);
    ctx.obs(serde_json::to_string(&(&case.layers, &case.strategy, case.hooks)).unwrap_or_default().as_bytes());
    let op_budget = Duration::from_secs(3600 * 24 * 365);

    macro_rules! viol {
        ($oracle:expr, $class:expr, $extra:expr, $detail:expr) => {{
            return Some(Violation::new($oracle, $class, format!("C12/layers/{}/{}{}", $class, cfgsig, $extra), $detail));
        }};
    }
    // every call must return: virtual-time guard (async deadlocks) - blocking deadlocks are caught by
    // the real-time watchdog of the run
    macro_rules! call {
        ($i:expr, $name:expr, $fut:expr) => {{
            match tokio::time::timeout(op_budget, $fut).await {
                Ok(r) => r,
                Err(_) => {
                    viol!("C12.liveness.returns", "hang", "", format!("op #{} {} did not return (virtual-time guard of one year elapsed)", $i, $name));
                }
            }
        }};
    }

    // judge a read of key k through the whole stack
    fn judge_get(m: &mut Model, k: usize, got: Option<&[u8]>, t_lo: u64, t_hi: u64, ctx: &mut Ctx) -> Result<(), (&'static str, String)> {
        let nl = m.keys[k].held.len();
        if m.keys[k].tainted() {
            ctx.count("reads_of_tainted_key_not_judged");
            return Ok(());
        }
        let mut acceptable: Vec<(usize, Vec<u8>)> = Vec::new();
        let mut certain = false;
        for i in 0..nl {
            let expired = m.keys[k].held[i].as_ref().is_some_and(|e| e.surely_expired(t_lo));
            if expired {
                m.keys[k].held[i] = None;
                continue;
            }
            if let Some(e) = &m.keys[k].held[i] {
                acceptable.push((i, e.value.clone()));
                if e.surely_live(t_hi) && !e.maybe_gone {
                    certain = true;
                    break;
                }
            }
        }
        let latest = m.keys[k].latest.clone();
        match got {
            Some(v) => {
                let Some((layer, _)) = acceptable.iter().find(|(_, a)| a.as_slice() == v) else {
                    let class = if m.keys[k].past.iter().any(|p| p.as_slice() == v) { "removed_or_replaced_value_served" } else { "foreign_value_served" };
                    return Err((class, format!("get(k{k}) returned {} bytes ({}) that no layer can hold for the key", v.len(), hex::encode(&v[..v.len().min(8)]))));
                };
                let layer = *layer;
                if latest.as_deref() != Some(v) {
                    return Err(("stale_value_served", format!("get(k{k}) returned the {}-byte value held by layer {layer} ({}), which is OLDER than the latest put for the key ({})", v.len(), hex::encode(&v[..v.len().min(8)]), latest.as_ref().map(|l| hex::encode(&l[..l.len().min(8)])).unwrap_or_else(|| "removed".into()))));
                }
                // which layer answered is only known when exactly one acceptable layer holds these bytes
                // (after a promotion two layers hold the same value)
                let unambiguous = acceptable.iter().filter(|(_, a)| a.as_slice() == v).count() == 1;
                if unambiguous {
                    for j in 0..layer {
                        m.keys[k].held[j] = None;
                    }
                    if let Some(e) = m.keys[k].held[layer].as_mut() {
                        // a hit in a slower layer may be followed by an automatic promotion, and whether a
                        // promotion copies or MOVES the entry is not something the property fixes: afterwards
                        // the slower layer may have given the entry up and every faster layer may hold it
                        e.maybe_gone = layer > 0;
                    }
                    if layer > 0 {
                        ctx.reached("served_by_lower_layer");
                        if let Some(src) = m.keys[k].held[layer].clone() {
                            for j in 0..layer {
                                m.keys[k].held[j] = Some(LE { maybe_gone: true, ..src.clone() });
                            }
                        }
                    }
                }
                Ok(())
            }
            None => {
                if certain {
                    return Err(("lost_value", format!("get(k{k}) returned nothing although a layer certainly holds a value for the key")));
                }
                for h in m.keys[k].held.iter_mut() {
                    *h = None;
                }
                Ok(())
            }
        }
    }

    for (i, op) in case.ops.iter().enumerate() {
        let name = format!("{op:?}");
        let name = name.split([' ', '{', '(']).next().unwrap_or("op").to_string();
        ctx.obs(name.as_bytes());
        let t_lo = seams::virt_elapsed_ns();
        match op {
            Op::Put { k, len } | Op::PutTtl { k, len, .. } => {
                let k = *k % nk;
                let v = val(i, k, *len, 0);
                let ttl = if let Op::PutTtl { ttl_ms, .. } = op { Some(*ttl_ms * MS) } else { None };
                let r = if let Some(t) = ttl { call!(i, "put_with_ttl", ml.put_with_ttl(keys[k].clone(), Bytes::from(v.clone()), Duration::from_nanos(t))) } else { call!(i, "put", ml.put(keys[k].clone(), Bytes::from(v.clone()))) };
                let t_hi = seams::virt_elapsed_ns();
                ctx.event(|| json!({"k":"op","op":name,"key":k,"len":len,"ttl_ns":ttl,"ok":r.is_ok(),"head":hex::encode(&v[..v.len().min(8)])}));
                if let Err(e) = r {
                    viol!("C12.op.no_error", "op_error", ",op=put", format!("op #{i} {name}(k{k}) failed without any injected fault: {e}"));
                }
                m.api_put(k, 0, v.clone(), ttl, t_lo, t_hi, ctx);
                ctx.mutations += 1;
            }
            Op::PutToLayer { k, len, layer } => {
                let k = *k % nk;
                let layer = *layer % nl;
                let v = val(i, k, *len, 1);
                let r = call!(i, "put_to_layer", ml.put_to_layer(keys[k].clone(), Bytes::from(v.clone()), layer));
                let t_hi = seams::virt_elapsed_ns();
                ctx.event(|| json!({"k":"op","op":"put_to_layer","key":k,"layer":layer,"len":len,"ok":r.is_ok(),"head":hex::encode(&v[..v.len().min(8)])}));
                if let Err(e) = r {
                    viol!("C12.op.no_error", "op_error", ",op=put_to_layer", format!("op #{i} put_to_layer(k{k}, layer {layer}) failed without any injected fault: {e}"));
                }
                m.api_put(k, layer, v.clone(), None, t_lo, t_hi, ctx);
                ctx.mutations += 1;
            }
            Op::Get(k) => {
                let k = *k % nk;
                let r = call!(i, "get", ml.get(&keys[k]));
                let t_hi = seams::virt_elapsed_ns();
                ctx.event(|| json!({"k":"op","op":"get","key":k,"ret":match &r {Ok(Some(v)) => json!({"len":v.len(),"head":hex::encode(&v[..v.len().min(8)])}), Ok(None) => json!(null), Err(e) => json!({"err":e.to_string()})}}));
                match r {
                    Ok(v) => {
                        ctx.obs(&[v.is_some() as u8]);
                        if let Err((class, d)) = judge_get(&mut m, k, v.as_deref(), t_lo, t_hi, ctx) {
                            viol!("C12.get.latest_or_nothing", class, "", format!("op #{i}: {d}"));
                        }
                    }
                    Err(e) => {
                        // surfacing a layer's I/O error once (a deleted or edited backing file) instead of swallowing it
                        // is allowed; an error with no fault pending for the key is not
                        if !(m.keys[k].tainted() || m.keys[k].deleted.iter().any(|d| *d)) {
                            viol!("C12.op.no_error", "op_error", ",op=get", format!("op #{i} get(k{k}) failed: {e}"));
                        }
                        for d in m.keys[k].deleted.iter_mut() {
                            *d = false;
                        }
                    }
                }
            }
            Op::BatchGet(ks) => {
                let kk: Vec<SimKey> = ks.iter().map(|k| keys[*k % nk].clone()).collect();
                let r = call!(i, "batch_get", ml.batch_get(&kk));
                let t_hi = seams::virt_elapsed_ns();
                ctx.event(|| json!({"k":"op","op":"batch_get","keys":ks,"ok":r.is_ok()}));
                match r {
                    Ok(vs) => {
                        if vs.len() != ks.len() {
                            viol!("C12.batch.shape", "batch_shape", "", format!("op #{i} batch_get of {} keys returned {} results", ks.len(), vs.len()));
                        }
                        for (k, v) in ks.iter().zip(vs.iter()) {
                            if let Err((class, d)) = judge_get(&mut m, *k % nk, v.as_deref(), t_lo, t_hi, ctx) {
                                viol!("C12.get.latest_or_nothing", class, ",via=batch_get", format!("op #{i}: {d}"));
                            }
                        }
                    }
                    Err(e) => {
                        if !ks.iter().any(|k| m.keys[*k % nk].tainted()) {
                            viol!("C12.op.no_error", "op_error", ",op=batch_get", format!("op #{i} batch_get failed: {e}"));
                        }
                    }
                }
            }
            Op::BatchPut(items) => {
                let it: Vec<(SimKey, Bytes)> = items.iter().enumerate().map(|(j, (k, len))| (keys[*k % nk].clone(), Bytes::from(val(i, *k % nk, *len, 2 + j)))).collect();
                let r = call!(i, "batch_put", ml.batch_put(it));
                let t_hi = seams::virt_elapsed_ns();
                ctx.event(|| json!({"k":"op","op":"batch_put","items":items,"ok":r.is_ok()}));
                if let Err(e) = r {
                    viol!("C12.op.no_error", "op_error", ",op=batch_put", format!("op #{i} batch_put failed: {e}"));
                }
                for (j, (k, len)) in items.iter().enumerate() {
                    let k = *k % nk;
                    let v = val(i, k, *len, 2 + j);
                    m.api_put(k, 0, v.clone(), None, t_lo, t_hi, ctx);
                }
                ctx.mutations += 1;
            }
            Op::GetFromLayer { k, layer } => {
                let k = *k % nk;
                let layer = *layer % nl;
                let r = call!(i, "get_from_layer", ml.get_from_layer(&keys[k], layer));
                let t_hi = seams::virt_elapsed_ns();
                ctx.event(|| json!({"k":"op","op":"get_from_layer","key":k,"layer":layer,"ret":match &r {Ok(Some(v)) => json!({"len":v.len(),"head":hex::encode(&v[..v.len().min(8)])}), Ok(None) => json!(null), Err(e) => json!({"err":e.to_string()})}}));
                if m.keys[k].taint[layer] {
                    ctx.count("reads_of_tainted_key_not_judged");
                } else {
                    match r {
                        Ok(got) => {
                            let e = m.keys[k].held[layer].clone();
                            match (got, e) {
                                (None, None) => {}
                                (None, Some(e)) => {
                                    if e.surely_live(t_hi) && !e.maybe_gone && !m.keys[k].deleted[layer] {
                                        viol!("C12.layer.read", "lost_value", ",via=get_from_layer", format!("op #{i} get_from_layer(k{k}, {layer}) returned nothing although the layer certainly holds a value"));
                                    }
                                    m.keys[k].held[layer] = None;
                                }
                                (Some(v), held) => {
                                    let ok = held.as_ref().is_some_and(|e| e.value.as_slice() == v.as_ref() && !e.surely_expired(t_lo));
                                    // a layer that was not invalidated by a later put may still hold an older value of
                                    // the key: that alone is not what the property forbids (serving it through get is)
                                    let older = m.keys[k].since_remove.iter().any(|p| p.as_slice() == v.as_ref());
                                    if !ok && older {
                                        ctx.count("older_copy_seen_in_layer");
                                        let (lo, hi) = (t_lo, t_hi);
                                        m.keys[k].held[layer] = Some(LE { value: v.to_vec(), put_lo: lo, put_hi: hi, ttl: u64::MAX / 2, maybe_gone: true, live_until: None, dead_after: None });
                                    } else if !ok {
                                        let gone = m.keys[k].latest.is_none();
                                        viol!("C12.layer.read", if gone { "answer_after_remove" } else { "foreign_value_served" }, ",via=get_from_layer", format!("op #{i} get_from_layer(k{k}, {layer}) returned {} bytes although the model says the layer holds {}", v.len(), held.map(|e| format!("{} other bytes", e.value.len())).unwrap_or_else(|| "nothing (removed, cleared or never put there)".into())));
                                    }
                                    if let Some(e) = m.keys[k].held[layer].as_mut() {
                                        e.maybe_gone = false;
                                    }
                                }
                            }
                        }
                        Err(e) => {
                            // a deleted backing file is an I/O error that the single layer reports
                            if !m.keys[k].deleted[layer] {
                                viol!("C12.op.no_error", "op_error", ",op=get_from_layer", format!("op #{i} get_from_layer(k{k}, {layer}) failed: {e}"));
                            }
                            m.keys[k].held[layer] = None;
                            m.keys[k].deleted[layer] = false;
                        }
                    }
                }
            }
            Op::Promote { k, from, to } => {
                let k = *k % nk;
                let (from, to) = (*from % nl, *to % nl);
                let r = call!(i, "promote", ml.promote(&keys[k], from, to));
                let t_hi = seams::virt_elapsed_ns();
                ctx.event(|| json!({"k":"op","op":"promote","key":k,"from":from,"to":to,"ret":r.as_ref().map_err(|e| e.to_string())}));
                match r {
                    Ok(true) => {
                        if let Some(e) = m.keys[k].held[from].clone() {
                            let src_tainted = m.keys[k].taint[from];
                            let (src_live, src_dead) = (e.live_until.unwrap_or(e.put_lo.saturating_add(e.ttl)), e.dead_after.unwrap_or(e.put_hi.saturating_add(e.ttl)));
                            m.put_layer(k, to, e.value, None, t_lo, t_hi, ctx);
                            if let Some(t) = m.keys[k].held[to].as_mut() {
                                t.live_until = Some(src_live.min(t.put_lo.saturating_add(t.ttl)));
                                t.dead_after = Some(src_dead.max(t.put_hi.saturating_add(t.ttl)));
                            }
                            // promoting an edited file copies the edited bytes
                            m.keys[k].taint[to] = src_tainted;
                            if let Some(e) = m.keys[k].held[from].as_mut() {
                                // copy or move: the source layer may have given the entry up
                                e.maybe_gone = true;
                            }
                        } else if !m.keys[k].since_remove.is_empty() || m.keys[k].tainted() {
                            // an older copy the model does not track was promoted: learn what the target holds now
                            if let Ok(Some(b)) = ml.get_from_layer(&keys[k], to).await {
                                m.put_layer(k, to, b.to_vec(), None, t_lo, t_hi, ctx);
                            }
                        } else {
                            viol!("C12.promote", "promote_phantom", "", format!("op #{i} promote(k{k}, {from} -> {to}) returned true although layer {from} holds nothing for the key"));
                        }
                        ctx.mutations += 1;
                    }
                    Ok(false) => {
                        if from > to {
                            if let Some(e) = &m.keys[k].held[from] {
                                if e.surely_live(t_hi) && !e.maybe_gone && !m.keys[k].tainted() && !m.keys[k].deleted[from] {
                                    viol!("C12.promote", "lost_value", ",via=promote", format!("op #{i} promote(k{k}, {from} -> {to}) returned false although layer {from} certainly holds the key"));
                                }
                            }
                            m.keys[k].held[from] = None;
                        }
                    }
                    Err(e) => {
                        // reading a deleted backing file is an I/O error the layer reports
                        if !m.keys[k].tainted() && !m.keys[k].deleted[from] {
                            viol!("C12.op.no_error", "op_error", ",op=promote", format!("op #{i} promote failed: {e}"));
                        }
                        m.keys[k].held[from] = None;
                    }
                }
            }
            Op::Remove(k) => {
                let k = *k % nk;
                let r = call!(i, "remove", ml.remove(&keys[k]));
                ctx.event(|| json!({"k":"op","op":"remove","key":k,"ret":r.as_ref().map_err(|e| e.to_string())}));
                if let Err(e) = r {
                    viol!("C12.op.no_error", "op_error", ",op=remove", format!("op #{i} remove(k{k}) failed: {e}"));
                }
                m.drop_key(k);
                ctx.mutations += 1;
                for l in 0..nl {
                    if let Ok(Some(b)) = ml.get_from_layer(&keys[k], l).await {
                        viol!("C12.remove.all_layers", "answer_after_remove", ",via=probe_after_remove", format!("op #{i}: right after remove(k{k}) layer {l} still answers for the key with {} bytes", b.len()));
                    }
                }
            }
            Op::Clear => {
                let r = call!(i, "clear", ml.clear());
                ctx.event(|| json!({"k":"op","op":"clear","ok":r.is_ok()}));
                if let Err(e) = r {
                    viol!("C12.op.no_error", "op_error", ",op=clear", format!("op #{i} clear() failed: {e}"));
                }
                for k in 0..nk {
                    m.drop_key(k);
                }
                ctx.mutations += 1;
                for k in 0..nk {
                    for l in 0..nl {
                        if let Ok(Some(b)) = ml.get_from_layer(&keys[k], l).await {
                            viol!("C12.remove.all_layers", "answer_after_remove", ",via=probe_after_clear", format!("op #{i}: right after clear() layer {l} still answers for k{k} with {} bytes", b.len()));
                        }
                    }
                }
            }
            Op::PutValidated { k, len, wrong } => {
                let k = *k % nk;
                let v = val(i, k, *len, 9);
                let ck = if *wrong { ContentKey::from_data(b"something else entirely") } else { ContentKey::from_data(&v) };
                let r = call!(i, "put_with_validation", ml.put_with_validation(keys[k].clone(), ck, Bytes::from(v.clone())));
                let t_hi = seams::virt_elapsed_ns();
                ctx.event(|| json!({"k":"op","op":"put_with_validation","key":k,"len":len,"wrong_key":wrong,"ok":r.is_ok()}));
                match r {
                    Ok(_) => {
                        if *wrong && case.hooks {
                            viol!("C12.validation.put", "wrong_key_put_accepted", "", format!("op #{i} put_with_validation(k{k}) stored a value that does not hash to the supplied content key"));
                        }
                        m.api_put(k, 0, v.clone(), None, t_lo, t_hi, ctx);
                        m.keys[k].ck = Some(ck);
                        ctx.mutations += 1;
                    }
                    Err(e) => {
                        if !(*wrong && case.hooks) {
                            viol!("C12.op.no_error", "op_error", ",op=put_with_validation", format!("op #{i} put_with_validation(k{k}) with a matching content key failed: {e}"));
                        }
                    }
                }
            }
            Op::PutValidatedTtl { k, len, ttl_ms } => {
                let k = *k % nk;
                let v = val(i, k, *len, 8);
                let ck = ContentKey::from_data(&v);
                let r = call!(i, "put_with_validation_and_ttl", ml.put_with_validation_and_ttl(keys[k].clone(), ck, Bytes::from(v.clone()), Duration::from_millis(*ttl_ms)));
                let t_hi = seams::virt_elapsed_ns();
                ctx.event(|| json!({"k":"op","op":"put_with_validation_and_ttl","key":k,"len":len,"ttl_ms":ttl_ms,"ok":r.is_ok()}));
                match r {
                    Ok(_) => {
                        m.api_put(k, 0, v.clone(), Some(*ttl_ms * MS), t_lo, t_hi, ctx);
                        m.keys[k].ck = Some(ck);
                        ctx.mutations += 1;
                    }
                    Err(e) => {
                        viol!("C12.op.no_error", "op_error", ",op=put_with_validation_and_ttl", format!("op #{i} put_with_validation_and_ttl(k{k}) with a matching content key failed: {e}"));
                    }
                }
            }
            Op::GetValidatedWrongKey(k) => {
                let k = *k % nk;
                let ck = ContentKey::from_data(format!("not what is stored under k{k}").as_bytes());
                let r = call!(i, "get_with_validation", ml.get_with_validation(&keys[k], Some(ck)));
                let r = r.map(|o| o.map(cascette_cache::validation::NgdpBytes::into_bytes));
                ctx.event(|| json!({"k":"op","op":"get_with_validation(wrong key)","key":k,"ret":match &r {Ok(Some(v)) => json!({"len":v.len()}), Ok(None) => json!(null), Err(e) => json!({"err":e.to_string()})}}));
                if let (true, Ok(Some(v))) = (case.hooks, &r) {
                    if ContentKey::from_data(v) != ck {
                        viol!("C12.validation.get", "served_bytes_fail_md5", ",wrong_key_requested", format!("op #{i} get_with_validation(k{k}) was asked for a content key the stored value does not hash to and returned the {} stored bytes anyway", v.len()));
                    }
                }
                ctx.count("validated_reads_with_foreign_key");
                // whether the (intact) entry is dropped as "corrupt" or kept is not judged: every layer may
                // have given it up
                if case.hooks {
                    for h in m.keys[k].held.iter_mut().flatten() {
                        h.maybe_gone = true;
                    }
                }
            }
            Op::GetValidated(k) => {
                let k = *k % nk;
                // the requested content key: of the latest value if the model has one
                let ck = m.keys[k].latest.as_ref().map(|l| ContentKey::from_data(l)).or(m.keys[k].ck).unwrap_or_else(|| ContentKey::from_data(b"absent"));
                let r = call!(i, "get_with_validation", ml.get_with_validation(&keys[k], Some(ck)));
                let t_hi = seams::virt_elapsed_ns();
                let r = r.map(|o| o.map(cascette_cache::validation::NgdpBytes::into_bytes));
                ctx.event(|| json!({"k":"op","op":"get_with_validation","key":k,"ret":match &r {Ok(Some(v)) => json!({"len":v.len(),"head":hex::encode(&v[..v.len().min(8)])}), Ok(None) => json!(null), Err(e) => json!({"err":e.to_string()})}}));
                match r {
                    Ok(Some(v)) => {
                        ctx.obs(&[2]);
                        if case.hooks && ContentKey::from_data(&v) != ck {
                            viol!("C12.validation.get", "served_bytes_fail_md5", "", format!("op #{i} get_with_validation(k{k}) returned {} bytes that do not hash to the requested content key", v.len()));
                        }
                        if let Err((class, d)) = judge_get(&mut m, k, Some(v.as_ref()), t_lo, t_hi, ctx) {
                            viol!("C12.get.latest_or_nothing", class, ",via=get_with_validation", format!("op #{i}: {d}"));
                        }
                    }
                    Ok(None) => {
                        ctx.obs(&[1]);
                        if let Err((class, d)) = judge_get(&mut m, k, None, t_lo, t_hi, ctx) {
                            viol!("C12.get.latest_or_nothing", class, ",via=get_with_validation", format!("op #{i}: {d}"));
                        }
                        if m.keys[k].tainted() {
                            m.drop_key(k);
                        }
                    }
                    Err(e) => {
                        ctx.obs(&[0]);
                        let tainted = m.keys[k].tainted();
                        if !tainted || !case.hooks {
                            viol!("C12.validation.get", "validated_read_failed", if tainted { ",tainted" } else { ",untainted" }, format!("op #{i} get_with_validation(k{k}) failed although nothing corrupted the key's stored bytes: {e}"));
                        }
                        ctx.reached("corruption_detected");
                        // the corrupt entry must be gone from ALL layers: nothing answers for the key any more
                        for l in 0..nl {
                            if let Ok(Some(b)) = ml.get_from_layer(&keys[k], l).await {
                                viol!("C12.validation.dropped", "corrupt_entry_not_dropped", "", format!("op #{i}: after get_with_validation(k{k}) detected corruption, layer {l} still answers for the key with {} bytes", b.len()));
                            }
                        }
                        m.drop_key(k);
                    }
                }
            }
            Op::Contains(k) => {
                let k = *k % nk;
                let r = call!(i, "contains", ml.contains(&keys[k]));
                ctx.event(|| json!({"k":"op","op":"contains","key":k,"ret":r.as_ref().map_err(|e| e.to_string())}));
                if let Ok(true) = r {
                    let any = m.keys[k].held.iter().any(|h| h.as_ref().is_some_and(|e| !e.surely_expired(t_lo))) || m.keys[k].tainted() || !m.keys[k].since_remove.is_empty();
                    if !any {
                        viol!("C12.contains", "answer_after_remove", ",via=contains", format!("op #{i} contains(k{k}) = true although no layer can hold the key (removed, cleared, expired or never put)"));
                    }
                }
            }
            Op::BadLayer { k, which, max } => {
                let k = *k % nk;
                let bad = if *max { usize::MAX } else { nl };
                // (reads and promotions only: what a WRITE to a layer that does not exist should do - refuse, or store
                // somewhere - is not something the property fixes, and a store would have to be modelled)
                let what = match which % 3 {
                    0 => call!(i, "get_from_layer", ml.get_from_layer(&keys[k], bad)).map(|o| o.is_some()),
                    1 => call!(i, "promote", ml.promote(&keys[k], bad, 0)),
                    _ => call!(i, "promote", ml.promote(&keys[k], nl - 1, bad)),
                };
                // judged: the call returned (virtual-time and real-time guards) and did not panic; whatever it said
                ctx.event(|| json!({"k":"op","op":"bad_layer_index","which":which,"layer":bad,"ret":what.as_ref().map_err(|e| e.to_string())}));
                ctx.count("calls_with_a_layer_index_that_does_not_exist");
            }
            Op::Reopen => {
                drop(ml);
                for _ in 0..3 {
                    tokio::task::yield_now().await;
                }
                ml = match build(case, &ctx.root) {
                    Ok((x, _, _)) => x,
                    Err(e) => viol!("C12.construct", "construct_failed", ",at=reopen", format!("op #{i}: building the cache again on the same directories failed: {e}")),
                };
                for _ in 0..3 {
                    tokio::task::yield_now().await;
                }
                for km in m.keys.iter_mut() {
                    for (l, h) in km.held.iter_mut().enumerate() {
                        if m.mem_max[l].is_some() {
                            *h = None;
                        }
                    }
                }
                ctx.count("reopens");
                ctx.event(|| json!({"k":"op","op":"reopen"}));
            }
            Op::Size => {
                let r = call!(i, "size", ml.size());
                ctx.event(|| json!({"k":"op","op":"size","ret":r.as_ref().map_err(|e| e.to_string())}));
            }
            Op::Advance { ms } => {
                advance_both(Duration::from_millis(*ms)).await;
                ctx.obs_u64(*ms);
                ctx.event(|| json!({"k":"clock","advance_ms":ms,"t":seams::virt_elapsed_ns()}));
            }
            Op::Corrupt { k, layer, how } => {
                let k = *k % nk;
                let layer = *layer % nl;
                if let Some(d) = &dirs[layer] {
                    let p = backing_file(d, &keys[k].as_cache_key(), m.keys[k].held[layer].as_ref().map(|e| e.value.as_slice()), ctx);
                    if let Ok(b) = std::fs::read(&p) {
                        let mut nb = b.clone();
                        match how % 4 {
                            0 if !nb.is_empty() => nb[0] ^= 0x40,
                            1 => nb.push(0x21),
                            2 if !nb.is_empty() => {
                                nb.pop();
                            }
                            _ => nb = b"completely different content".to_vec(),
                        }
                        if nb != b && std::fs::write(&p, &nb).is_ok() {
                            m.keys[k].taint[layer] = true;
                            ctx.fault("corrupt_layer_file");
                            ctx.event(|| json!({"k":"fault","fault":"corrupt_file","key":k,"layer":layer,"how":how}));
                        }
                    }
                }
            }
            Op::Delete { k, layer } => {
                let k = *k % nk;
                let layer = *layer % nl;
                if let Some(d) = &dirs[layer] {
                    let p = backing_file(d, &keys[k].as_cache_key(), m.keys[k].held[layer].as_ref().map(|e| e.value.as_slice()), ctx);
                    if std::fs::remove_file(&p).is_ok() {
                        if let Some(e) = m.keys[k].held[layer].as_mut() {
                            e.maybe_gone = true;
                        }
                        m.keys[k].deleted[layer] = true;
                        m.keys[k].taint[layer] = false;
                        ctx.fault("delete_layer_file");
                        ctx.event(|| json!({"k":"fault","fault":"delete_file","key":k,"layer":layer}));
                    }
                }
            }
        }
        ctx.state(m.keys.iter().fold(7u64, |h, km| {
            let x = km.held.iter().fold(u64::from(km.tainted()), |a, e| a.wrapping_mul(31) ^ e.as_ref().map(|e| Ctx::hash_of(&e.value) ^ u64::from(e.maybe_gone)).unwrap_or(3));
            (h ^ x).wrapping_mul(0x0000_0100_0000_01B3)
        }));
    }
    None
}

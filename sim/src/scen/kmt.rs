//! C05 — the local key index (IndexManager) and the residency database behave as
//! persistent maps over any history, including save + reload.

use crate::framework::{shrink_vec, Ctx, Scenario, Tier, Violation};
use crate::prng::Rng;
use cascette_client_storage::index::{IndexManager, UpdateStatus};
use cascette_client_storage::container::residency::ResidencyContainer;
use cascette_client_storage::container::AccessMode;
use cascette_client_storage::kmt::key_state::ResidencyDb;
use cascette_crypto::EncodingKey;
use serde::{Deserialize, Serialize};
use serde_json::json;
use std::collections::{BTreeMap, BTreeSet};

pub struct Kmt;

#[derive(Clone, Debug, Serialize, Deserialize, PartialEq)]
pub enum Op {
    // ---- index ----
    Add { k: usize, a: u16, o: u32, s: u32 },
    AddBurst { n: u32 },
    Update { k: usize, a: u16, o: u32, s: u32 },
    UpdateBurst { from: u32, n: u32, a: u16 },
    /// update_entry_status on `n` consecutive burst keys (st: 3 = delete, 6 / 7 = non-resident flags, 0 = normal)
    StatusBurst { from: u32, n: u32, st: u8 },
    Status { k: usize, st: u8 },
    Remove { k: usize },
    RemoveBurst { from: u32, n: u32 },
    FlushBucket { b: u8 },
    FlushAll,
    SaveAll,
    Reload { flush_only: bool },
    ClearBucket { b: u8 },
    Clear,
    // ---- residency ----
    MarkResident { k: usize },
    MarkNonResident { k: usize },
    MarkSpan { k: usize, off: i32, len: i32 },
    DeleteKeys { ks: Vec<usize>, pad_to: u32 },
    MarkBurst { n: u32 },
    Save,
    Load,
}

#[derive(Clone, Debug, Serialize, Deserialize)]
pub struct Case {
    /// "index" | "residency"
    pub sys: String,
    /// hex of 16-byte keys
    pub keys: Vec<String>,
    /// bucket that burst keys are concentrated in
    pub bucket: u8,
    pub ops: Vec<Op>,
    /// burst keys in pseudo-random key order (counter * odd constant) instead of ascending: a later burst then
    /// lands BETWEEN the keys of earlier ones in the sorted section, not after them
    #[serde(default)]
    pub scramble: bool,
    /// residency: a delete batch is padded with the burst keys marked so far (keys that EXIST) before the
    /// never-marked filler keys
    #[serde(default)]
    pub pad_with_burst: bool,
}

fn idx_bucket(k: &[u8]) -> u8 {
    let h = k[..9].iter().fold(0u8, |a, b| a ^ b);
    (h & 0x0F) ^ (h >> 4)
}
fn res_bucket(k: &[u8; 16]) -> u8 {
    let x = k.iter().fold(0u8, |a, b| a ^ b);
    ((x >> 4) ^ x) & 0x0F
}
/// Force `k` into index bucket `b` by choosing byte 8.
fn force_idx_bucket(k: &mut [u8; 16], b: u8, hi: u8) {
    let want = ((hi & 0x0F) << 4) | ((hi & 0x0F) ^ (b & 0x0F));
    let x = k[..8].iter().fold(0u8, |a, v| a ^ v);
    k[8] = want ^ x;
}
/// Force `k` into residency bucket `b` by choosing byte 15.
fn force_res_bucket(k: &mut [u8; 16], b: u8, hi: u8) {
    let want = ((hi & 0x0F) << 4) | ((hi & 0x0F) ^ (b & 0x0F));
    let x = k[..15].iter().fold(0u8, |a, v| a ^ v);
    k[15] = want ^ x;
}
fn burst_key(sys_index: bool, bucket: u8, counter: u32) -> [u8; 16] {
    let mut k = [0u8; 16];
    k[..4].copy_from_slice(&counter.to_be_bytes());
    k[4] = 0xB5;
    k[5] = 0x7A;
    k[6] = (counter % 251) as u8;
    k[7] = 0x01;
    if sys_index {
        force_idx_bucket(&mut k, bucket, (counter >> 3) as u8);
    } else {
        k[9] = 0x33;
        force_res_bucket(&mut k, bucket, (counter >> 3) as u8);
    }
    k
}
fn parse16(s: &str) -> [u8; 16] {
    let mut k = [0u8; 16];
    if let Ok(b) = hex::decode(s) {
        for (i, x) in b.iter().take(16).enumerate() {
            k[i] = *x;
        }
    }
    k
}
fn k9(k: &[u8; 16]) -> [u8; 9] {
    let mut o = [0u8; 9];
    o.copy_from_slice(&k[..9]);
    o
}
fn status_of(b: u8) -> UpdateStatus {
    match b {
        3 => UpdateStatus::Delete,
        6 => UpdateStatus::HeaderNonResident,
        7 => UpdateStatus::DataNonResident,
        _ => UpdateStatus::Normal,
    }
}

type Loc = (u16, u32, u32);

impl Scenario for Kmt {
    type Case = Case;
    fn property(&self) -> &'static str {
        "C05"
    }
    fn name(&self) -> &'static str {
        "kmt"
    }
    fn level(&self) -> &'static str {
        "exploration"
    }
    fn rule(&self) -> &'static str {
        "Seeded histories (5-60 ops, one op may be a burst of up to 1400 entries in ONE bucket so the 1260-entry update section fills) over add/update/update_status (single and in bursts of up to 1300 in one bucket)/remove/flush_bucket/flush_all/save_all/reload/clear_bucket/clear on the real IndexManager with real .idx files, and over mark_resident/mark_non_resident/mark_span_non_resident/delete_keys (incl. one >10000-key batch)/save/load on the real ResidencyDb, driven directly or (one run in three of that arm) through its ResidencyContainer wrapper (initialize/flush/re-initialize as load). Keys: bucket-targeted by inverting the bucket hash (burst keys in ascending or - half the runs - pseudo-random key order; residency delete batches padded with the burst keys that exist - half the runs - or with never-marked keys), aliases sharing the 9-byte prefix, all-0xFF, archive id 1023, offset 2^30-1. After every op lookups of touched keys and never-inserted neighbours, entry_count and iter_entries/scan_keys are compared with a BTreeMap model; booleans returned by mutators must equal 'the model changed'; the same after save + reload into a fresh instance. Non-trivial = >= 2 mutations; distinct = hash of (config, ops, observed results)."
    }
    fn assumptions(&self) -> Vec<&'static str> {
        vec![
            "keys whose first nine bytes are zero are the format's empty-slot marker and are not in C05's quantifier (exercised under C17)",
            "archive ids <= 1023 and offsets < 2^30 (the field limits named by the property)",
            "reload = save_all (or flush_all_updates when no clear/clear_bucket happened since the last save_all) followed by a NEW manager + load_all on the same directory; no crash here (C06)",
        ]
    }
    fn components(&self) -> Vec<(&'static str, &'static str)> {
        vec![
            ("IndexManager (update section, merge, tombstones, save_index, load_index)", "real"),
            ("ResidencyDb (bucket pages, murmur fast path, batch_delete, save, load)", "real"),
            ("ResidencyContainer (initialize, mark_*, delete_keys, flush)", "real"),
            ("std::fs / tokio::fs on tmpfs sandbox", "real"),
        ]
    }
    fn runs(&self, tier: Tier) -> u64 {
        match tier {
            Tier::Quick => 60_000,
            Tier::Thorough => 1_200_000,
        }
    }

    fn generate(&self, rng: &mut Rng, _tier: Tier) -> Case {
        let index = rng.chance(70, 100);
        let bucket = rng.below(16) as u8;
        let nkeys = rng.range(3, 10) as usize;
        let mut keys: Vec<[u8; 16]> = Vec::new();
        for i in 0..nkeys {
            let mut k = [0u8; 16];
            match rng.below(10) {
                0 if !keys.is_empty() => {
                    // alias: same 9-byte prefix (index) / fully distinct tail
                    k = keys[rng.usize_below(keys.len())];
                    k[12] ^= 0x5A;
                    k[15] = k[15].wrapping_add(1 + i as u8);
                }
                1 => {
                    k = [0xFF; 16];
                    k[15] = i as u8;
                }
                2 => {
                    rng.fill(&mut k);
                    // same first 8 bytes as another key (murmur fast-path collision for residency)
                    if let Some(o) = keys.first() {
                        k[..8].copy_from_slice(&o[..8]);
                    }
                    k[8] = 0x11 + i as u8;
                }
                _ => {
                    rng.fill(&mut k);
                    k[0] |= 1;
                    if rng.chance(60, 100) {
                        if index {
                            force_idx_bucket(&mut k, bucket, rng.below(16) as u8);
                        } else {
                            force_res_bucket(&mut k, bucket, rng.below(16) as u8);
                        }
                    }
                }
            }
            if index && k[..9].iter().all(|b| *b == 0) {
                // (the index format's own empty-slot marker: exercised where the property names it, C17)
                k[0] = 1;
            }
            keys.push(k);
        }
        let nops = match rng.below(100) {
            0..=19 => rng.range(3, 6),
            20..=84 => rng.range(7, 25),
            _ => rng.range(26, 60),
        } as usize;
        let mut ops = Vec::with_capacity(nops);
        let loc = |rng: &mut Rng| -> (u16, u32, u32) {
            let a = match rng.below(6) {
                0 => 0,
                1 => 1023,
                2 => 1,
                3 => 3,
                _ => rng.below(1024) as u16,
            };
            let o = match rng.below(5) {
                0 => 0,
                1 => (1 << 30) - 1,
                2 => 1,
                _ => rng.below(1 << 30) as u32,
            };
            let s = match rng.below(5) {
                0 => 0,
                1 => u32::MAX,
                _ => rng.below(1 << 32) as u32,
            };
            (a, o, s)
        };
        if index {
            // weights: add, addburst, update, updateburst, status, remove, removeburst, flushb, flushall, saveall, reload, clearb, clear
            let mut w = [22u32, 5, 10, 3, 8, 12, 3, 5, 4, 4, 9, 2, 1];
            let heavy = rng.chance(25, 100); // runs that are about filling the update section
            if heavy {
                w[1] = 14;
                w[3] = 8;
                w[6] = 8;
            }
            for (i, wi) in w.iter_mut().enumerate() {
                if i != 0 && rng.chance(20, 100) {
                    *wi = 0;
                }
            }
            let mut burst_total = 0u32;
            for _ in 0..nops {
                let k = rng.usize_below(nkeys);
                let op = match rng.weighted(&w) {
                    0 => {
                        let (a, o, s) = loc(rng);
                        Op::Add { k, a, o, s }
                    }
                    1 => {
                        let n = *rng.pick(&[1u32, 20, 21, 22, 300, 1259, 1260, 1261, 1400, 700]);
                        burst_total += n;
                        Op::AddBurst { n }
                    }
                    2 => {
                        let (a, o, s) = loc(rng);
                        Op::Update { k, a, o, s }
                    }
                    3 if rng.chance(1, 3) => Op::StatusBurst { from: rng.below(u64::from(burst_total.max(1))) as u32, n: *rng.pick(&[1u32, 21, 200, 1260, 1300]), st: *rng.pick(&[7u8, 6, 3, 0]) },
                    3 => Op::UpdateBurst { from: rng.below(u64::from(burst_total.max(1))) as u32, n: *rng.pick(&[1u32, 21, 200, 1260, 1300]), a: rng.below(1024) as u16 },
                    4 => Op::Status { k, st: *rng.pick(&[0u8, 3, 6, 7]) },
                    5 => Op::Remove { k },
                    6 => Op::RemoveBurst { from: rng.below(u64::from(burst_total.max(1))) as u32, n: *rng.pick(&[1u32, 21, 200, 1260, 1300]) },
                    7 => Op::FlushBucket { b: if rng.chance(70, 100) { bucket } else { rng.below(16) as u8 } },
                    8 => Op::FlushAll,
                    9 => Op::SaveAll,
                    10 => Op::Reload { flush_only: rng.chance(40, 100) },
                    11 => Op::ClearBucket { b: if rng.chance(70, 100) { bucket } else { rng.below(16) as u8 } },
                    _ => Op::Clear,
                };
                ops.push(op);
            }
        } else {
            // weights: mark, marknon, span, deletekeys, markburst, save, load
            let mut w = [26u32, 14, 10, 8, 5, 10, 12];
            for (i, wi) in w.iter_mut().enumerate() {
                if i != 0 && rng.chance(20, 100) {
                    *wi = 0;
                }
            }
            for _ in 0..nops {
                let k = rng.usize_below(nkeys);
                let op = match rng.weighted(&w) {
                    0 => Op::MarkResident { k },
                    1 => Op::MarkNonResident { k },
                    2 => Op::MarkSpan { k, off: *rng.pick(&[0i32, 1, 4096, i32::MAX, -1]), len: *rng.pick(&[0i32, 1, 65536, i32::MAX]) },
                    3 => {
                        let cnt = rng.range(0, 4) as usize;
                        let ks = (0..cnt).map(|_| rng.usize_below(nkeys)).collect();
                        // rarely pad the batch beyond the 10000-key threshold with keys that were never marked
                        // (the threshold itself and its neighbours: 9999, 10000, 10001)
                        let pad_to = if rng.chance(8, 100) { *rng.pick(&[9_999u32, 10_000, 10_001, 10_001]) } else { 0 };
                        Op::DeleteKeys { ks, pad_to }
                    }
                    4 => Op::MarkBurst { n: *rng.pick(&[1u32, 24, 25, 26, 60, 200]) },
                    5 => Op::Save,
                    _ => Op::Load,
                };
                ops.push(op);
            }
        }
        let sys: String = if index { "index".into() } else if rng.chance(1, 3) { "residency_container".into() } else { "residency".into() };
        // drawn last
        let scramble = rng.chance(1, 2);
        let pad_with_burst = rng.chance(1, 2);
        Case { sys, keys: keys.iter().map(hex::encode).collect(), bucket, ops, scramble, pad_with_burst }
    }

    fn execute(&self, case: &Case, ctx: &mut Ctx) -> Option<Violation> {
        if case.sys == "index" {
            let rt = super::paused_runtime();
            rt.block_on(run_index(case, ctx))
        } else {
            run_residency(case, ctx)
        }
    }

    fn shrink(&self, case: &Case) -> Vec<Case> {
        let mut out = Vec::new();
        for ops in shrink_vec(&case.ops) {
            out.push(Case { ops, ..case.clone() });
        }
        for (i, op) in case.ops.iter().enumerate() {
            let simpler = match op {
                Op::AddBurst { n } if *n > 1 => Some(Op::AddBurst { n: n - 1 - (n - 1) / 2 }),
                Op::RemoveBurst { from, n } if *n > 1 => Some(Op::RemoveBurst { from: *from, n: n / 2 }),
                Op::UpdateBurst { from, n, a } if *n > 1 => Some(Op::UpdateBurst { from: *from, n: n / 2, a: *a }),
                Op::StatusBurst { from, n, st } if *n > 1 => Some(Op::StatusBurst { from: *from, n: n / 2, st: *st }),
                Op::MarkBurst { n } if *n > 1 => Some(Op::MarkBurst { n: n / 2 }),
                Op::DeleteKeys { ks, pad_to } if *pad_to > 0 => Some(Op::DeleteKeys { ks: ks.clone(), pad_to: 0 }),
                Op::Reload { flush_only: true } => Some(Op::Reload { flush_only: false }),
                Op::Add { k, a, o, s } if (*a, *o, *s) != (1, 1, 1) => Some(Op::Add { k: *k, a: 1, o: 1, s: 1 }),
                _ => None,
            };
            if let Some(s) = simpler {
                let mut ops = case.ops.clone();
                ops[i] = s;
                out.push(Case { ops, ..case.clone() });
            }
        }
        // smaller bursts by one (fine tuning around the 1260 boundary)
        for (i, op) in case.ops.iter().enumerate() {
            if let Op::AddBurst { n } = op {
                if *n > 1 {
                    let mut ops = case.ops.clone();
                    ops[i] = Op::AddBurst { n: n - 1 };
                    out.push(Case { ops, ..case.clone() });
                }
            }
        }
        out
    }
}

fn sig(sys: &str, class: &str, extra: &str) -> String {
    format!("C05/{sys}/{class}{extra}")
}

async fn run_index(case: &Case, ctx: &mut Ctx) -> Option<Violation> {
    let sc = |c: u32| if case.scramble { c.wrapping_mul(0x9E37_79B1) } else { c };
    let dir = ctx.root.join("indices");
    std::fs::create_dir_all(&dir).ok()?;
    let keys: Vec<[u8; 16]> = case.keys.iter().map(|s| parse16(s)).collect();
    let nk = keys.len().max(1);
    let mut mgr = IndexManager::new(&dir);
    let mut m: BTreeMap<[u8; 9], Loc> = BTreeMap::new();
    let mut touched: BTreeSet<[u8; 16]> = BTreeSet::new();
    let mut burst_total: u32 = 0;
    let mut cleared_since_save = false;
    // number of entries appended to the target bucket's update section since its last flush (probe only)
    let mut full_sections_seen = false;
    ctx.obs(case.sys.as_bytes());
    ctx.obs(&[case.bucket]);

    macro_rules! viol {
        ($oracle:expr, $class:expr, $extra:expr, $detail:expr) => {{
            return Some(Violation::new($oracle, $class, sig("index", $class, $extra), $detail));
        }};
    }

    // compare a set of keys against the model
    fn check_keys<'a>(mgr: &IndexManager, m: &BTreeMap<[u8; 9], Loc>, it: impl Iterator<Item = &'a [u8; 16]>) -> Option<String> {
        for k in it {
            let got = mgr.lookup(&EncodingKey::from_bytes(*k)).map(|e| (e.key, e.archive_id(), e.archive_offset(), e.size));
            let exp = m.get(&k9(k)).map(|l| (k9(k), l.0, l.1, l.2));
            if got != exp {
                return Some(format!("lookup({}) = {:?}, model says {:?}", hex::encode(k), got.map(|g| (hex::encode(g.0), g.1, g.2, g.3)), exp.map(|g| (hex::encode(g.0), g.1, g.2, g.3))));
            }
        }
        None
    }
    fn check_enum(mgr: &IndexManager, m: &BTreeMap<[u8; 9], Loc>) -> Option<String> {
        let cnt = mgr.entry_count();
        if cnt != m.len() {
            return Some(format!("entry_count() = {cnt}, model holds {}", m.len()));
        }
        let mut seen: BTreeMap<[u8; 9], Loc> = BTreeMap::new();
        for (b, e) in mgr.iter_entries() {
            // (the library's own public mapping; the copy above is only used to BUILD keys for one bucket)
            let mut full = [0u8; 16];
            full[..9].copy_from_slice(&e.key);
            let want = IndexManager::bucket_for_key(&EncodingKey::from_bytes(full));
            if want != b {
                return Some(format!("iter_entries yields key {} under bucket {b:#x}, its bucket is {want:#x}", hex::encode(e.key)));
            }
            if seen.insert(e.key, (e.archive_id(), e.archive_offset(), e.size)).is_some() {
                return Some(format!("iter_entries yields key {} twice", hex::encode(e.key)));
            }
        }
        if seen != *m {
            let missing: Vec<_> = m.keys().filter(|k| !seen.contains_key(*k)).take(3).map(hex::encode).collect();
            let extra: Vec<_> = seen.keys().filter(|k| !m.contains_key(*k)).take(3).map(hex::encode).collect();
            let differ: Vec<_> = m.iter().filter(|(k, v)| seen.get(*k).is_some_and(|s| s != *v)).take(3).map(|(k, _)| hex::encode(k)).collect();
            return Some(format!("iter_entries differs from the model: missing {missing:?}, unexpected {extra:?}, different location {differ:?}"));
        }
        None
    }

    for (i, op) in case.ops.iter().enumerate() {
        let name = format!("{op:?}");
        let name = name.split([' ', '{', '(']).next().unwrap_or("op").to_string();
        ctx.obs(name.as_bytes());
        let mut full_check = false;
        match op {
            Op::Add { k, a, o, s } => {
                let key = keys[*k % nk];
                let r = mgr.add_entry(&EncodingKey::from_bytes(key), *a, *o, *s);
                ctx.event(|| json!({"k":"op","op":"add_entry","key":hex::encode(key),"loc":[a,o,s],"ok":r.is_ok()}));
                if let Err(e) = r {
                    viol!("C05.add.ok", "add_failed", "", format!("op #{i} add_entry({}) failed: {e}", hex::encode(key)));
                }
                m.insert(k9(&key), (*a, *o, *s));
                touched.insert(key);
                ctx.mutations += 1;
            }
            Op::AddBurst { n } => {
                for c in burst_total..burst_total + *n {
                    let key = burst_key(true, case.bucket, sc(c));
                    let loc: Loc = ((c % 1024) as u16, c.wrapping_mul(2654435761) & 0x3FFF_FFFF, c ^ 0xABCD);
                    if let Err(e) = mgr.add_entry(&EncodingKey::from_bytes(key), loc.0, loc.1, loc.2) {
                        viol!("C05.add.ok", "add_failed", ",burst", format!("op #{i} add_entry #{c} of a burst into bucket {:#x} failed: {e}", case.bucket));
                    }
                    m.insert(k9(&key), loc);
                }
                burst_total += *n;
                ctx.event(|| json!({"k":"op","op":"add_burst","n":n,"bucket":case.bucket,"total":burst_total}));
                ctx.mutations += 1;
                full_check = true;
            }
            Op::Update { k, a, o, s } => {
                let key = keys[*k % nk];
                let r = mgr.update_entry(&EncodingKey::from_bytes(key), *a, *o, *s);
                let had = m.contains_key(&k9(&key));
                ctx.obs(&[r as u8]);
                ctx.event(|| json!({"k":"op","op":"update_entry","key":hex::encode(key),"loc":[a,o,s],"ret":r}));
                if had {
                    m.insert(k9(&key), (*a, *o, *s));
                }
                touched.insert(key);
                if r != had {
                    viol!("C05.mutator.truthful", "update_result", if had { ",ret=false_for_present" } else { ",ret=true_for_absent" }, format!("op #{i} update_entry({}) returned {r}, the key is {} in the model", hex::encode(key), if had { "present" } else { "absent" }));
                }
                ctx.mutations += 1;
            }
            Op::UpdateBurst { from, n, a } => {
                if burst_total > 0 {
                    for j in 0..*n {
                        let c = (from + j) % burst_total;
                        let key = burst_key(true, case.bucket, sc(c));
                        let had = m.contains_key(&k9(&key));
                        let loc: Loc = (*a, (c + j) & 0x3FFF_FFFF, j);
                        let r = mgr.update_entry(&EncodingKey::from_bytes(key), loc.0, loc.1, loc.2);
                        if had {
                            m.insert(k9(&key), loc);
                        }
                        if r != had {
                            viol!("C05.mutator.truthful", "update_result", if had { ",ret=false_for_present,burst" } else { ",ret=true_for_absent,burst" }, format!("op #{i} update_entry of burst key #{c} (update {j} of {n} in a row) returned {r}, the key is {} in the model", if had { "present" } else { "absent" }));
                        }
                        if let Some(d) = check_keys(&mgr, &m, std::iter::once(&key)) {
                            viol!("C05.lookup.latest", "lookup_mismatch", ",after=update_burst", format!("op #{i} after update_entry of burst key #{c} ({j} of {n}): {d}"));
                        }
                    }
                    ctx.mutations += 1;
                    full_check = true;
                }
                ctx.event(|| json!({"k":"op","op":"update_burst","from":from,"n":n}));
            }
            Op::StatusBurst { from, n, st } => {
                if burst_total > 0 {
                    for j in 0..*n {
                        let c = (from + j) % burst_total;
                        let key = burst_key(true, case.bucket, sc(c));
                        let had = m.contains_key(&k9(&key));
                        let r = mgr.update_entry_status(&EncodingKey::from_bytes(key), status_of(*st));
                        if had && *st == 3 {
                            m.remove(&k9(&key));
                        }
                        if r != had {
                            viol!("C05.mutator.truthful", "status_result", if had { ",ret=false_for_present,burst" } else { ",ret=true_for_absent,burst" }, format!("op #{i} update_entry_status({st}) of burst key #{c} ({j} of {n} in a row) returned {r}, the key is {} in the model", if had { "present" } else { "absent" }));
                        }
                        if let Some(d) = check_keys(&mgr, &m, std::iter::once(&key)) {
                            viol!("C05.lookup.latest", "lookup_mismatch", ",after=status_burst", format!("op #{i} after update_entry_status({st}) of burst key #{c} ({j} of {n}): {d}"));
                        }
                    }
                    ctx.mutations += 1;
                    full_check = true;
                }
                ctx.event(|| json!({"k":"op","op":"status_burst","from":from,"n":n,"st":st}));
            }
            Op::Status { k, st } => {
                let key = keys[*k % nk];
                let r = mgr.update_entry_status(&EncodingKey::from_bytes(key), status_of(*st));
                let had = m.contains_key(&k9(&key));
                ctx.obs(&[r as u8]);
                ctx.event(|| json!({"k":"op","op":"update_entry_status","key":hex::encode(key),"status":st,"ret":r}));
                if had && *st == 3 {
                    m.remove(&k9(&key));
                }
                touched.insert(key);
                if r != had {
                    viol!("C05.mutator.truthful", "status_result", if had { ",ret=false_for_present" } else { ",ret=true_for_absent" }, format!("op #{i} update_entry_status({}, {st}) returned {r}, the key is {} in the model", hex::encode(key), if had { "present" } else { "absent" }));
                }
                ctx.mutations += 1;
            }
            Op::Remove { k } => {
                let key = keys[*k % nk];
                let r = mgr.remove_entry(&EncodingKey::from_bytes(key));
                let had = m.remove(&k9(&key)).is_some();
                ctx.obs(&[r as u8]);
                ctx.event(|| json!({"k":"op","op":"remove_entry","key":hex::encode(key),"ret":r}));
                touched.insert(key);
                if r != had {
                    viol!("C05.mutator.truthful", "remove_result", "", format!("op #{i} remove_entry({}) returned {r}, the key was {} in the model", hex::encode(key), if had { "present" } else { "absent" }));
                }
                ctx.mutations += 1;
            }
            Op::RemoveBurst { from, n } => {
                if burst_total > 0 {
                    for j in 0..*n {
                        let c = (from + j) % burst_total;
                        let key = burst_key(true, case.bucket, sc(c));
                        let r = mgr.remove_entry(&EncodingKey::from_bytes(key));
                        let had = m.remove(&k9(&key)).is_some();
                        if r != had {
                            viol!("C05.mutator.truthful", "remove_result", ",burst", format!("op #{i} remove_entry of burst key #{c} ({j} of {n} in a row) returned {r}, the key was {} in the model", if had { "present" } else { "absent" }));
                        }
                        if let Some(d) = check_keys(&mgr, &m, std::iter::once(&key)) {
                            viol!("C05.mutator.effect", "remove_no_effect", ",burst", format!("op #{i} remove_entry of burst key #{c} (removal {j} of {n} in a row) returned {r} but {d}"));
                        }
                    }
                    ctx.mutations += 1;
                    full_check = true;
                }
                ctx.event(|| json!({"k":"op","op":"remove_burst","from":from,"n":n}));
            }
            Op::FlushBucket { b } => {
                let r = mgr.flush_updates_for_bucket(*b);
                ctx.event(|| json!({"k":"op","op":"flush_updates_for_bucket","bucket":b,"ok":r.is_ok()}));
                if let Err(e) = r {
                    viol!("C05.save.ok", "save_failed", ",op=flush_bucket", format!("op #{i} flush_updates_for_bucket({b}) failed without any injected fault: {e}"));
                }
            }
            Op::FlushAll => {
                let r = mgr.flush_all_updates();
                ctx.event(|| json!({"k":"op","op":"flush_all_updates","ok":r.is_ok()}));
                if let Err(e) = r {
                    viol!("C05.save.ok", "save_failed", ",op=flush_all", format!("op #{i} flush_all_updates failed without any injected fault: {e}"));
                }
            }
            Op::SaveAll => {
                let r = mgr.save_all();
                ctx.event(|| json!({"k":"op","op":"save_all","ok":r.is_ok()}));
                if let Err(e) = r {
                    viol!("C05.save.ok", "save_failed", ",op=save_all", format!("op #{i} save_all failed without any injected fault: {e}"));
                }
                cleared_since_save = false;
            }
            Op::Reload { flush_only } => {
                let use_flush = *flush_only && !cleared_since_save;
                let r = if use_flush { mgr.flush_all_updates() } else { mgr.save_all() };
                if let Err(e) = r {
                    viol!("C05.save.ok", "save_failed", ",op=reload", format!("op #{i} saving before reload failed without any injected fault: {e}"));
                }
                if !use_flush {
                    cleared_since_save = false;
                }
                let mut fresh = IndexManager::new(&dir);
                let r = fresh.load_all().await;
                ctx.event(|| json!({"k":"op","op":"reload","via":if use_flush {"flush_all_updates"} else {"save_all"},"ok":r.is_ok(),"entries":fresh.entry_count()}));
                if let Err(e) = r {
                    viol!("C05.reload.ok", "reload_failed", "", format!("op #{i} load_all on a fresh manager failed after a successful save: {e}"));
                }
                mgr = fresh;
                ctx.count("reloads");
                full_check = true;
            }
            Op::ClearBucket { b } => {
                let _ = mgr.clear_bucket(*b);
                m.retain(|k, _| idx_bucket(k) != *b);
                cleared_since_save = true;
                ctx.event(|| json!({"k":"op","op":"clear_bucket","bucket":b}));
                ctx.mutations += 1;
                full_check = true;
            }
            Op::Clear => {
                mgr.clear();
                m.clear();
                cleared_since_save = true;
                ctx.event(|| json!({"k":"op","op":"clear"}));
                ctx.mutations += 1;
                full_check = true;
            }
            _ => {}
        }
        if !full_sections_seen && mgr.bucket_entry_count(case.bucket) >= 1260 {
            full_sections_seen = true;
            ctx.reached("bucket_with_1260_or_more_raw_entries");
        }

        // ---- after every operation ----
        let after = match op {
            Op::Reload { .. } => ",after=reload",
            _ => "",
        };
        if let Some(d) = check_keys(&mgr, &m, touched.iter()) {
            viol!("C05.lookup.latest", "lookup_mismatch", after, format!("after op #{i} ({name}): {d}"));
        }
        // never-inserted neighbours of touched keys
        for k in touched.iter().take(6) {
            let mut n = *k;
            n[8] ^= 0x80;
            n[0] ^= 0x01;
            if !m.contains_key(&k9(&n)) {
                if let Some(e) = mgr.lookup(&EncodingKey::from_bytes(n)) {
                    viol!("C05.lookup.absent", "phantom_entry", after, format!("after op #{i} ({name}) lookup of never-inserted key {} returned an entry for {}", hex::encode(n), hex::encode(e.key)));
                }
            }
        }
        if burst_total > 0 {
            // a deterministic sample of burst keys (and all of them on a full check)
            let step = if full_check || i + 1 == case.ops.len() { 1 } else { (burst_total / 16).max(1) };
            let mut c = 0;
            while c < burst_total {
                let key = burst_key(true, case.bucket, sc(c));
                if let Some(d) = check_keys(&mgr, &m, std::iter::once(&key)) {
                    viol!("C05.lookup.latest", "lookup_mismatch", after, format!("after op #{i} ({name}), burst key #{c}: {d}"));
                }
                c += step;
            }
        }
        if m.len() <= 64 || full_check || i % 4 == 3 || i + 1 == case.ops.len() {
            if let Some(d) = check_enum(&mgr, &m) {
                viol!("C05.enumeration", "enumeration_mismatch", after, format!("after op #{i} ({name}): {d}"));
            }
        }
        ctx.obs_u64(m.len() as u64);
        ctx.state(m.iter().fold(m.len() as u64, |h, (k, v)| (h ^ Ctx::hash_of(k) ^ u64::from(v.1)).wrapping_mul(0x0000_0100_0000_01B3)));
    }
    None
}

/// The residency database, driven directly or through its ResidencyContainer wrapper.
enum Rs {
    Db(ResidencyDb, std::path::PathBuf),
    Cont(ResidencyContainer, std::path::PathBuf),
}
impl Rs {
    fn open_container(dir: &std::path::Path) -> Result<ResidencyContainer, String> {
        let mut c = ResidencyContainer::new("wow".to_string(), AccessMode::ReadWrite, dir.to_path_buf());
        super::paused_runtime().block_on(c.initialize()).map_err(|e| e.to_string())?;
        Ok(c)
    }
    fn mark_resident(&mut self, k: &[u8; 16]) -> Result<(), String> {
        match self {
            Rs::Db(d, _) => {
                d.mark_resident(k);
                Ok(())
            }
            Rs::Cont(c, _) => c.mark_resident(k).map_err(|e| e.to_string()),
        }
    }
    fn mark_non_resident(&mut self, k: &[u8; 16]) -> Result<(), String> {
        match self {
            Rs::Db(d, _) => {
                d.mark_non_resident(k);
                Ok(())
            }
            Rs::Cont(c, _) => c.mark_non_resident(k).map_err(|e| e.to_string()),
        }
    }
    fn mark_span_non_resident(&mut self, k: &[u8; 16], off: i32, len: i32) -> Result<(), String> {
        match self {
            Rs::Db(d, _) => {
                d.mark_span_non_resident(k, off, len);
                Ok(())
            }
            Rs::Cont(c, _) => c.mark_span_non_resident(k, off, len).map_err(|e| e.to_string()),
        }
    }
    fn delete_keys(&mut self, ks: &[[u8; 16]]) -> Result<(), String> {
        match self {
            Rs::Db(d, _) => {
                d.delete_keys(ks);
                Ok(())
            }
            Rs::Cont(c, _) => c.delete_keys(ks).map_err(|e| e.to_string()),
        }
    }
    fn save(&mut self) -> Result<(), String> {
        match self {
            Rs::Db(d, _) => d.save().map_err(|e| e.to_string()),
            Rs::Cont(c, _) => c.flush().map_err(|e| e.to_string()),
        }
    }
    /// a fresh instance on the same files
    fn reload(&mut self) -> Result<(), String> {
        match self {
            Rs::Db(d, p) => {
                *d = ResidencyDb::load(p).map_err(|e| e.to_string())?;
                Ok(())
            }
            Rs::Cont(c, dir) => {
                *c = Rs::open_container(dir)?;
                Ok(())
            }
        }
    }
    fn is_resident(&self, k: &[u8; 16]) -> bool {
        match self {
            Rs::Db(d, _) => d.is_resident(k),
            Rs::Cont(c, _) => c.is_resident(k),
        }
    }
    fn scan_keys(&self) -> Vec<[u8; 16]> {
        match self {
            Rs::Db(d, _) => d.scan_keys(),
            Rs::Cont(c, _) => c.scan_keys(),
        }
    }
    fn entry_count(&self) -> usize {
        match self {
            Rs::Db(d, _) => d.entry_count(),
            Rs::Cont(c, _) => c.resident_count(),
        }
    }
}

fn run_residency(case: &Case, ctx: &mut Ctx) -> Option<Violation> {
    let sc = |c: u32| if case.scramble { c.wrapping_mul(0x9E37_79B1) } else { c };
    let dir = ctx.root.join("residency");
    std::fs::create_dir_all(&dir).ok()?;
    let path = dir.join("residency.db");
    let keys: Vec<[u8; 16]> = case.keys.iter().map(|s| parse16(s)).collect();
    let nk = keys.len().max(1);
    let via_container = case.sys == "residency_container";
    let sysname = if via_container { "residency_container" } else { "residency" };
    let mut db = if via_container {
        match Rs::open_container(&dir) {
            Ok(c) => Rs::Cont(c, dir.clone()),
            Err(e) => return Some(Violation::new("C05.construct", "construct_failed", sig(sysname, "construct_failed", ""), format!("ResidencyContainer::initialize failed on an empty directory: {e}"))),
        }
    } else {
        Rs::Db(ResidencyDb::new(path.clone()), path.clone())
    };
    // key -> resident?
    let mut m: BTreeMap<[u8; 16], bool> = BTreeMap::new();
    let mut burst_total = 0u32;
    ctx.obs(case.sys.as_bytes());

    macro_rules! viol {
        ($oracle:expr, $class:expr, $extra:expr, $detail:expr) => {{
            return Some(Violation::new($oracle, $class, sig(sysname, $class, $extra), $detail));
        }};
    }

    for (i, op) in case.ops.iter().enumerate() {
        let name = format!("{op:?}");
        let name = name.split([' ', '{', '(']).next().unwrap_or("op").to_string();
        ctx.obs(name.as_bytes());
        let mut after = "";
        match op {
            Op::MarkResident { k } => {
                let key = keys[*k % nk];
                if let Err(e) = db.mark_resident(&key) {
                    viol!("C05.op.no_error", "op_error", "", format!("op #{i} mark_resident failed: {e}"));
                }
                m.insert(key, true);
                ctx.event(|| json!({"k":"op","op":"mark_resident","key":hex::encode(key)}));
                ctx.mutations += 1;
            }
            Op::MarkNonResident { k } => {
                let key = keys[*k % nk];
                if let Err(e) = db.mark_non_resident(&key) {
                    viol!("C05.op.no_error", "op_error", "", format!("op #{i} mark_non_resident failed: {e}"));
                }
                m.insert(key, false);
                ctx.event(|| json!({"k":"op","op":"mark_non_resident","key":hex::encode(key)}));
                ctx.mutations += 1;
            }
            Op::MarkSpan { k, off, len } => {
                let key = keys[*k % nk];
                let degenerate = *len <= 0 || *off < 0;
                if let Err(e) = db.mark_span_non_resident(&key, *off, *len) {
                    if !degenerate {
                        viol!("C05.op.no_error", "op_error", "", format!("op #{i} mark_span_non_resident failed: {e}"));
                    }
                }
                if degenerate {
                    // an empty or negative span may be a no-op, be refused, or mark the key: the key's state is
                    // taken from the database until its next mark
                    let now = db.is_resident(&key);
                    if m.contains_key(&key) || now {
                        m.insert(key, now);
                    }
                    ctx.count("degenerate_spans_not_judged");
                } else {
                    m.insert(key, false);
                }
                ctx.event(|| json!({"k":"op","op":"mark_span_non_resident","key":hex::encode(key),"off":off,"len":len}));
                ctx.mutations += 1;
            }
            Op::DeleteKeys { ks, pad_to } => {
                let mut list: Vec<[u8; 16]> = ks.iter().map(|k| keys[*k % nk]).collect();
                let mut padded_existing: Vec<[u8; 16]> = Vec::new();
                if case.pad_with_burst && *pad_to > 0 {
                    for c in 0..burst_total {
                        if (list.len() as u32) >= *pad_to {
                            break;
                        }
                        let key = burst_key(false, case.bucket, sc(c));
                        list.push(key);
                        padded_existing.push(key);
                    }
                }
                let mut c = 0u32;
                while (list.len() as u32) < *pad_to {
                    let mut k = [0xD1u8; 16];
                    k[..4].copy_from_slice(&c.to_be_bytes());
                    list.push(k);
                    c += 1;
                }
                if let Err(e) = db.delete_keys(&list) {
                    viol!("C05.op.no_error", "op_error", "", format!("op #{i} delete_keys failed: {e}"));
                }
                for k in ks {
                    m.insert(keys[*k % nk], false);
                }
                for k in &padded_existing {
                    m.insert(*k, false);
                }
                if *pad_to > 10_000 {
                    ctx.reached("batch_delete_path");
                }
                ctx.event(|| json!({"k":"op","op":"delete_keys","keys":ks,"total":list.len()}));
                ctx.mutations += 1;
            }
            Op::MarkBurst { n } => {
                for c in burst_total..burst_total + *n {
                    let key = burst_key(false, case.bucket, sc(c));
                    if let Err(e) = db.mark_resident(&key) {
                        viol!("C05.op.no_error", "op_error", "", format!("op #{i} mark_resident (burst) failed: {e}"));
                    }
                    m.insert(key, true);
                }
                burst_total += *n;
                ctx.event(|| json!({"k":"op","op":"mark_burst","n":n,"bucket":case.bucket}));
                ctx.mutations += 1;
            }
            Op::Save => {
                let r = db.save();
                ctx.event(|| json!({"k":"op","op":"save","ok":r.is_ok()}));
                if let Err(e) = r {
                    viol!("C05.save.ok", "save_failed", "", format!("op #{i} ResidencyDb::save failed without any injected fault: {e}"));
                }
            }
            Op::Load => {
                // save + load into a fresh instance
                if let Err(e) = db.save() {
                    viol!("C05.save.ok", "save_failed", ",op=reload", format!("op #{i} save before load failed: {e}"));
                }
                if let Err(e) = db.reload() {
                    viol!("C05.reload.ok", "reload_failed", "", format!("op #{i} loading a fresh instance failed after a successful save: {e}"));
                }
                ctx.event(|| json!({"k":"op","op":"save+load","entries":db.entry_count()}));
                ctx.count("reloads");
                after = ",after=reload";
            }
            _ => {}
        }
        // ---- after every operation ----
        for (k, res) in &m {
            let r = db.is_resident(k);
            if r != *res {
                viol!("C05.residency.latest_mark", "residency_mismatch", after, format!("after op #{i} ({name}) is_resident({}) = {r}, the latest mark says {res}", hex::encode(k)));
            }
        }
        for k in keys.iter() {
            if !m.contains_key(k) && db.is_resident(k) {
                viol!("C05.residency.latest_mark", "residency_phantom", after, format!("after op #{i} ({name}) is_resident({}) = true for a key that was never marked", hex::encode(k)));
            }
        }
        let mut scan = db.scan_keys();
        scan.sort_unstable();
        let dup = scan.windows(2).any(|w| w[0] == w[1]);
        let exp: Vec<[u8; 16]> = m.iter().filter(|(_, r)| **r).map(|(k, _)| *k).collect();
        if dup || scan != exp {
            viol!("C05.residency.scan", "scan_mismatch", after, format!("after op #{i} ({name}) scan_keys() yields {} keys (duplicates: {dup}), the model has {} resident keys", scan.len(), exp.len()));
        }
        // resident_count()/entry_count() count entries, including keys that only carry a non-resident span;
        // the property promises residency per key ("resident exactly when its latest mark says so"), not
        // that count, so it is observed but not judged
        ctx.obs_u64(db.entry_count() as u64);
        ctx.obs_u64(exp.len() as u64);
        ctx.state(exp.iter().fold(exp.len() as u64, |h, k| (h ^ Ctx::hash_of(k)).wrapping_mul(0x0000_0100_0000_01B3)));
    }
    let _ = res_bucket;
    None
}

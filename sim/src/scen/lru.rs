//! C17 — the LRU tracker equals a textbook LRU over any history (incl. checkpoint /
//! reload / restart).

use crate::framework::{shrink_vec, Ctx, Scenario, Tier, Violation};
use crate::prng::Rng;
use cascette_client_storage::lru::LruManager;
use serde::{Deserialize, Serialize};
use serde_json::json;
use std::collections::{BTreeMap, VecDeque};

pub struct Lru;

#[derive(Clone, Debug, Serialize, Deserialize, PartialEq)]
pub enum LoadSel {
    Latest,
    Current,
    Prev,
    Missing,
    /// the OLDEST checkpoint still on disk (with a gap in the generations a newer one exists beside it)
    Oldest,
}

#[derive(Clone, Debug, Serialize, Deserialize, PartialEq)]
pub enum Op {
    Touch(usize),
    Remove(usize),
    EvictTail,
    EvictToTarget { bytes: u64, avg: u64 },
    Bump,
    Checkpoint,
    Load(LoadSel),
    RunCycle { limit: u64, avg: u64 },
    Shutdown,
    Reset,
    /// drop the manager, create a new one on the same directory, run_cycle
    Restart { limit: u64, avg: u64 },
    /// touch `n` fresh, distinct keys in a row (tag distinguishes one fill from another): the table is FULL of
    /// active entries for whatever comes next (checkpoint, reload, eviction to a target, run_cycle)
    Fill { n: u32, tag: u8 },
    /// drop the manager and create a new one on the same directory WITHOUT loading anything: a cold manager
    /// (generation 1) next to whatever checkpoints its predecessor left
    ColdRestart,
}

#[derive(Clone, Debug, Serialize, Deserialize)]
pub struct Case {
    pub capacity: u32,
    /// hex of 9-byte keys
    pub keys: Vec<String>,
    pub ops: Vec<Op>,
}

type Key = [u8; 9];

/// Alphabet of the enumerated arm (16 symbols over 4 non-zero keys).
fn enum_op(sym: u64) -> Op {
    match sym {
        0..=3 => Op::Touch(sym as usize),
        4..=7 => Op::Remove(sym as usize - 4),
        8 => Op::EvictTail,
        9 => Op::EvictToTarget { bytes: 1, avg: 1 },
        10 => Op::EvictToTarget { bytes: 2, avg: 1 },
        11 => Op::Bump,
        12 => Op::Checkpoint,
        13 => Op::Load(LoadSel::Latest),
        14 => Op::RunCycle { limit: 1, avg: 1 },
        15 => Op::Restart { limit: u64::MAX / 4, avg: 1 },
        _ => Op::Reset,
    }
}
const ENUM_SYMS: u64 = 17;
/// Longest history length enumerated completely in a tier.
fn enum_max_len(tier: Tier) -> u32 {
    match tier {
        Tier::Quick => 3,
        Tier::Thorough => 5,
    }
}
/// Number of enumerated cases: 3 capacities x sum_{l=1..L} 16^l.
pub fn enum_total(tier: Tier) -> u64 {
    3 * (1..=enum_max_len(tier)).map(|l| ENUM_SYMS.pow(l)).sum::<u64>()
}
fn enumerated_case(index: u64, tier: Tier) -> Option<Case> {
    if index >= enum_total(tier) {
        return None;
    }
    let capacity = (index % 3) as u32 + 1;
    let mut rest = index / 3;
    let mut len = 1u32;
    while rest >= ENUM_SYMS.pow(len) {
        rest -= ENUM_SYMS.pow(len);
        len += 1;
    }
    let mut ops = Vec::with_capacity(len as usize);
    for _ in 0..len {
        ops.push(enum_op(rest % ENUM_SYMS));
        rest /= ENUM_SYMS;
    }
    let keys = (0..4u8)
        .map(|i| {
            let mut k = [0u8; 9];
            k[0] = 0xA0 + i;
            k[8] = i + 1;
            hex::encode(k)
        })
        .collect();
    Some(Case { capacity, keys, ops })
}

fn parse_key(s: &str) -> Key {
    let mut k = [0u8; 9];
    if let Ok(b) = hex::decode(s) {
        for (i, x) in b.iter().take(9).enumerate() {
            k[i] = *x;
        }
    }
    k
}

/// Textbook LRU (front = least recent) plus the generation bookkeeping needed to say
/// what a reload must bring back.
struct Model {
    cap: usize,
    q: VecDeque<Key>,
    /// generation -> contents of the checkpoint stored under it (LRU→MRU)
    disk: BTreeMap<u64, Vec<Key>>,
    /// every checkpoint ever written (last content per generation), whether or not today's implementation
    /// would have deleted the file since: which old files are kept is retention policy, not part of C17
    ever: BTreeMap<u64, Vec<Key>>,
}

impl Model {
    fn touch(&mut self, k: Key) -> bool {
        if let Some(p) = self.q.iter().position(|x| *x == k) {
            self.q.remove(p);
            self.q.push_back(k);
            return true;
        }
        if self.cap == 0 {
            return false;
        }
        if self.q.len() >= self.cap {
            self.q.pop_front();
        }
        self.q.push_back(k);
        true
    }
    /// touch of a key that is certainly not tracked (no search: the final fill of a large table)
    fn touch_fresh(&mut self, k: Key) {
        if self.cap == 0 {
            return;
        }
        if self.q.len() >= self.cap {
            self.q.pop_front();
        }
        self.q.push_back(k);
    }
    fn remove(&mut self, k: Key) -> bool {
        if let Some(p) = self.q.iter().position(|x| *x == k) {
            self.q.remove(p);
            true
        } else {
            false
        }
    }
    fn evict_to_target(&mut self, bytes: u64, avg: u64) -> (usize, u64) {
        let mut ev = 0usize;
        let mut freed = 0u64;
        while freed < bytes {
            if self.q.pop_front().is_none() {
                break;
            }
            ev += 1;
            freed += avg;
        }
        (ev, freed)
    }
    fn hash(&self) -> u64 {
        let mut h = 0xcbf2_9ce4_8422_2325u64;
        for k in &self.q {
            for b in k {
                h ^= u64::from(*b);
                h = h.wrapping_mul(0x0000_0100_0000_01B3);
            }
        }
        h ^ (self.q.len() as u64) << 56
    }
}

fn op_kind(op: &Op) -> &'static str {
    match op {
        Op::Touch(_) => "touch",
        Op::Remove(_) => "remove",
        Op::EvictTail => "evict_tail",
        Op::EvictToTarget { .. } => "evict_to_target",
        Op::Bump => "bump_generation",
        Op::Checkpoint => "checkpoint",
        Op::Load(_) => "load_from_disk",
        Op::RunCycle { .. } => "run_cycle",
        Op::Shutdown => "shutdown",
        Op::Reset => "reset",
        Op::Restart { .. } => "restart",
        Op::Fill { .. } => "fill",
        Op::ColdRestart => "cold_restart",
    }
}

impl Scenario for Lru {
    type Case = Case;

    fn property(&self) -> &'static str {
        "C17"
    }
    fn name(&self) -> &'static str {
        "lru"
    }
    fn level(&self) -> &'static str {
        "exploration"
    }
    fn rule(&self) -> &'static str {
        "Enumerated arm first: run indices 0..N of every batch are, in order and independent of the seed, ALL histories of length 1..L (quick L=3: 15,657 cases; thorough L=5: 4,525,791 cases) over a 17-symbol alphabet {touch k0-k3, remove k0-k3, evict_tail, evict_to_target(1 or 2 entries), bump_generation, checkpoint, load latest, run_cycle, restart, reset} for capacities 1, 2, 3 and 4 non-zero keys (counter enumerated_histories). Then seeded histories (1-30 ops, mostly 3-12) over touch/remove/evict_tail/evict_to_target/bump_generation/checkpoint_to_disk/load_from_disk (of the latest, the current, the previous, the OLDEST checkpoint on disk or a missing one; which older file a checkpoint may delete is decided by bumps and restarts, never by a load)/run_cycle/shutdown/reset/restart (one run in eight is generation-heavy: >= 9 ops, three quarters of them bump / checkpoint / load, so that several checkpoint files exist side by side) (+ in one run in five a FILL = touches of capacity-1 ... 2 x capacity fresh keys in the first half of the history, in one run in twelve a COLD restart = a new manager that loads nothing) on the real LruManager with real checkpoint files in a per-run tmpfs sandbox; capacity 1-4 (a few up to 64; one seeded run in 400 with a table of 1 000 ... 1 000 000 slots, whose checkpoint file runs to 20 MiB), 4-6 keys, the all-zero key in ~30% of runs; run_cycle limits from 0 / one entry / capacity-1 entries up to (one cycle in three) 2^32 average-sized entries and just above, powers of two up to 2^62, u64::MAX, average sizes up to 2^32. After EVERY op len/contains/for_each_entry order are compared with a textbook LRU. A run is non-trivial if it executed >= 2 state-changing ops; distinct = distinct hash of (config, ops, observed results)."
    }
    fn assumptions(&self) -> Vec<&'static str> {
        vec![
            "tmpfs read/write/readdir behave like any POSIX file system for whole-file write and read",
            "a restart keeps the configured capacity (the property says 'of the same capacity')",
            "checkpoint bookkeeping model: checkpoint_to_disk stores the current list under generation(); the previous generation's file is deleted; scan_directory keeps only generation() and prev_generation()",
        ]
    }
    fn components(&self) -> Vec<(&'static str, &'static str)> {
        vec![
            ("cascette_client_storage::lru::LruManager (list, key map, free list, checkpoint, load, run_cycle, shutdown)", "real"),
            ("lru_file serialize/deserialize + MD5", "real"),
            ("tokio::fs on tmpfs sandbox", "real"),
            ("crash during checkpoint", "not simulated here (C06)"),
        ]
    }
    fn runs(&self, tier: Tier) -> u64 {
        match tier {
            Tier::Quick => 300_000,
            Tier::Thorough => 6_000_000,
        }
    }

    fn generate(&self, rng: &mut Rng, tier: Tier) -> Case {
        // Enumerated arm: the first ENUM(tier) run indices of a batch are the histories of the small
        // space the property's quantifier names (capacities 1-3, 4 keys), in order, independent of the seed.
        if let Some(c) = enumerated_case(crate::framework::run_index(), tier) {
            return c;
        }
        // one seeded run in 400 has a LARGE table (its checkpoint file runs to tens of KiB ... 20 MiB): sizes around
        // powers of two and round decimal numbers
        let huge = rng.chance(1, 400);
        let capacity = match rng.below(100) {
            _ if huge => *rng.pick(&[1_000u32, 4_096, 65_535, 65_536, 100_000, 131_072, 250_000, 1_000_000]),
            0..=24 => 1,
            25..=49 => 2,
            50..=69 => 3,
            70..=87 => 4,
            88..=95 => rng.range(5, 16) as u32,
            _ => rng.range(17, 64) as u32,
        };
        let nkeys = if capacity <= 4 { rng.range(4, 6) as usize } else if huge { 6 } else { capacity as usize + rng.range(1, 4) as usize };
        let mut keys: Vec<String> = Vec::with_capacity(nkeys);
        let zero = rng.chance(30, 100);
        for i in 0..nkeys {
            let k: Key = if i == 0 && zero {
                [0; 9]
            } else {
                match rng.below(10) {
                    0 => {
                        // only the last byte non-zero
                        let mut k = [0u8; 9];
                        k[8] = i as u8 + 1;
                        k
                    }
                    1 => {
                        let mut k = [0xFFu8; 9];
                        k[0] = i as u8;
                        k
                    }
                    _ => {
                        let mut k = [0u8; 9];
                        rng.fill(&mut k);
                        k[4] = i as u8 + 1; // distinct
                        k
                    }
                }
            };
            keys.push(hex::encode(k));
        }
        let nops = match rng.below(100) {
            0..=9 => rng.range(1, 2),
            10..=79 => rng.range(3, 12),
            80..=94 => rng.range(13, 30),
            _ => rng.range(30, 30 + u64::from(capacity.min(64)) * 3),
        } as usize;
        // swarm: each op kind enabled with its own probability
        let mut w = [40u32, 8, 8, 8, 5, 8, 5, 5, 3, 2, 6];
        for (i, wi) in w.iter_mut().enumerate() {
            if i != 0 && rng.chance(25, 100) {
                *wi = 0;
            }
        }
        // one run in eight is about generations: mostly bumps, checkpoints and loads (two checkpoint files side by
        // side take two bumps between two checkpoints; what a later checkpoint deletes then matters)
        let gen_heavy = rng.chance(1, 8);
        if gen_heavy {
            w = [12, 1, 1, 1, 25, 25, 25, 8, 1, 1, 0];
        }
        let nops = if gen_heavy { nops.max(9) } else { nops };
        let mut ops = Vec::with_capacity(nops);
        for _ in 0..nops {
            let avgs = [0u64, 1, 100];
            let op = match rng.weighted(&w) {
                0 => Op::Touch(rng.usize_below(nkeys)),
                1 => Op::Remove(rng.usize_below(nkeys)),
                2 => Op::EvictTail,
                3 => {
                    let lo = if rng.chance(1, 10) { 0 } else { 1 };
                    let avg = *rng.pick(&avgs[lo..]);
                    let bytes = match rng.below(6) {
                        0 => 0,
                        1 => 1,
                        2 => avg,
                        3 => avg * 2,
                        4 => avg * u64::from(capacity) + 1,
                        _ => u64::MAX / 2,
                    };
                    Op::EvictToTarget { bytes, avg }
                }
                4 => Op::Bump,
                5 => Op::Checkpoint,
                6 => Op::Load(match rng.below(12) {
                    0..=4 => LoadSel::Latest,
                    5..=6 => LoadSel::Current,
                    7..=8 => LoadSel::Prev,
                    9 => LoadSel::Missing,
                    _ => LoadSel::Oldest,
                }),
                7 | 10 => {
                    // one cycle in three takes its arguments from the wide end of the u64 range: limits at and
                    // just above 2^32 average-sized entries, the full range, large average sizes (an entry count
                    // derived from them does not fit 32 bits)
                    let wide = rng.chance(1, 3);
                    let avg = if wide { *rng.pick(&[1u64, 100, 1 << 16, 1 << 32]) } else { *rng.pick(&avgs) };
                    let limit = if wide {
                        match rng.below(6) {
                            0 => (1u64 << 32).saturating_mul(avg),
                            1 => ((1u64 << 32) + rng.below(u64::from(capacity) + 1)).saturating_mul(avg),
                            2 => u64::MAX,
                            3 => u64::MAX - rng.below(1 << 20),
                            4 => (1u64 << rng.range(33, 63)).saturating_add(rng.below(4) * avg),
                            _ => rng.next_u64() | (1 << 40),
                        }
                    } else {
                        match rng.below(4) {
                            0 => 0,
                            1 => avg,
                            2 => avg * u64::from(capacity.max(1) - 1).max(1),
                            _ => u64::MAX / 4,
                        }
                    };
                    if rng.chance(1, 2) { Op::RunCycle { limit, avg } } else { Op::Restart { limit, avg } }
                }
                8 => Op::Shutdown,
                _ => Op::Reset,
            };
            ops.push(op);
        }
        // drawn after the history: one run in five gets a fill somewhere in its first half, one in twelve a cold
        // restart somewhere
        let mut ops = ops;
        if rng.chance(1, 5) {
            let n = *rng.pick(&[capacity.saturating_sub(1).max(1), capacity, capacity + 1, capacity.saturating_mul(2)]);
            let at = rng.usize_below(ops.len() / 2 + 1);
            ops.insert(at, Op::Fill { n, tag: rng.below(200) as u8 });
        }
        if rng.chance(1, 12) {
            let at = rng.usize_below(ops.len() + 1);
            ops.insert(at, Op::ColdRestart);
        }
        Case { capacity, keys, ops }
    }

    fn execute(&self, case: &Case, ctx: &mut Ctx) -> Option<Violation> {
        let rt = super::paused_runtime();
        let keys: Vec<Key> = case.keys.iter().map(|s| parse_key(s)).collect();
        let has_zero = keys.iter().any(|k| *k == [0u8; 9]);
        if case.keys.len() == 4 && case.keys[0] == "a00000000000000001" {
            ctx.count("enumerated_histories");
        }
        let dir = ctx.root.join("lru");
        std::fs::create_dir_all(&dir).ok()?;
        let mut lru = LruManager::new(case.capacity, dir.clone());
        let mut m = Model { cap: case.capacity as usize, q: VecDeque::new(), disk: BTreeMap::new(), ever: BTreeMap::new() };
        ctx.obs_u64(u64::from(case.capacity));
        for k in &keys {
            ctx.obs(k);
        }
        let mut ext_evicted = false; // an eviction through the public eviction API removed >= 1 entry
        let mut reloaded = false;
        let mut m_prev = lru.prev_generation();
        let mut fills_done = 0u32;
        // the all-zero key has been in the tracker at some point of this history
        let mut zero_was_live = false;

        macro_rules! viol {
            ($oracle:expr, $class:expr, $op:expr, $detail:expr) => {{
                let zl = zero_was_live || m.q.iter().any(|k| *k == [0u8; 9]);
                let sig = format!(
                    "C17/lru/{}/op={}{}{}",
                    $class,
                    $op,
                    if ext_evicted { ",after_public_evict" } else { "" },
                    if zl { ",zero_key_live" } else { "" }
                );
                return Some(Violation::new($oracle, $class, sig, $detail));
            }};
        }

        for (i, op) in case.ops.iter().enumerate() {
            // which older checkpoint the next checkpoint may delete is decided by bumps (and restarts), never by a
            // load: the value seen before a load_from_disk stays the model's across it
            if i > 0 && !matches!(case.ops[i - 1], Op::Load(_)) {
                m_prev = lru.prev_generation();
            }
            let kind = op_kind(op);
            ctx.obs(kind.as_bytes());
            let mut mutating = true;
            match op {
                Op::Touch(ki) => {
                    let k = keys[*ki % keys.len()];
                    let r = lru.touch(&k);
                    let e = m.touch(k);
                    ctx.obs(&[r as u8]);
                    ctx.event(|| json!({"k":"op","op":"touch","key":hex::encode(k),"ret":r}));
                    if r != e {
                        viol!("C17.touch.returns_true", "touch_refused", kind, format!("op #{i} touch({}) returned {r}, a textbook LRU of capacity {} returns {e}", hex::encode(k), case.capacity));
                    }
                }
                Op::Remove(ki) => {
                    let k = keys[*ki % keys.len()];
                    let r = lru.remove(&k);
                    let e = m.remove(k);
                    ctx.obs(&[r as u8]);
                    ctx.event(|| json!({"k":"op","op":"remove","key":hex::encode(k),"ret":r}));
                    if r != e {
                        viol!("C17.remove.result", "remove_result", kind, format!("op #{i} remove({}) returned {r}, model says {e}", hex::encode(k)));
                    }
                }
                Op::EvictTail => {
                    let r = lru.evict_tail().is_some();
                    let e = m.q.pop_front().is_some();
                    ext_evicted |= e;
                    ctx.obs(&[r as u8]);
                    ctx.event(|| json!({"k":"op","op":"evict_tail","ret":r}));
                    if r != e {
                        viol!("C17.evict_tail.result", "evict_result", kind, format!("op #{i} evict_tail() evicted={r}, model says {e}"));
                    }
                }
                Op::EvictToTarget { bytes, avg } => {
                    let r = lru.evict_to_target(*bytes, *avg);
                    let e = m.evict_to_target(*bytes, *avg);
                    ext_evicted |= e.0 > 0;
                    ctx.obs_u64(r.0 as u64);
                    ctx.event(|| json!({"k":"op","op":"evict_to_target","bytes":bytes,"avg":avg,"ret":[r.0, r.1]}));
                    if r != e {
                        // the property promises the resulting contents and order (checked after every operation), not
                        // the numbers an eviction reports about itself
                        ctx.count("evict_to_target_reports_differ_from_model");
                    }
                }
                Op::Bump => {
                    lru.bump_generation();
                    mutating = false;
                    ctx.event(|| json!({"k":"op","op":"bump_generation","gen":lru.generation()}));
                }
                Op::Checkpoint => {
                    let g = lru.generation();
                    let p = m_prev;
                    let r = rt.block_on(lru.checkpoint_to_disk());
                    ctx.event(|| json!({"k":"op","op":"checkpoint_to_disk","gen":g,"prev":p,"ok":r.is_ok()}));
                    if let Err(e) = r {
                        viol!("C17.checkpoint.ok", "checkpoint_failed", kind, format!("op #{i} checkpoint_to_disk failed without any injected fault: {e}"));
                    }
                    m.disk.insert(g, m.q.iter().copied().collect());
                    m.ever.insert(g, m.q.iter().copied().collect());
                    if p != 0 && p != g {
                        m.disk.remove(&p);
                    }
                    mutating = false;
                }
                Op::Load(sel) => {
                    let g = match sel {
                        LoadSel::Latest => m.disk.keys().next_back().copied().unwrap_or(9_999),
                        LoadSel::Current => lru.generation(),
                        LoadSel::Prev => lru.prev_generation(),
                        LoadSel::Missing => 77_777,
                        LoadSel::Oldest => m.disk.keys().next().copied().unwrap_or(9_999),
                    };
                    let r = rt.block_on(lru.load_from_disk(g));
                    ctx.obs(&[r.is_ok() as u8]);
                    ctx.event(|| json!({"k":"op","op":"load_from_disk","gen":g,"ok":r.is_ok()}));
                    match (m.disk.get(&g), r) {
                        (Some(snap), Ok(())) => {
                            m.q = snap.iter().copied().collect();
                            reloaded = true;
                        }
                        (None, Err(_)) => {}
                        (Some(_), Err(e)) => {
                            viol!("C17.reload.ok", "reload_failed", kind, format!("op #{i} load_from_disk({g}) failed although generation {g} was checkpointed and never deleted: {e}"));
                        }
                        (None, Ok(())) => {
                            // a generation today's code would have deleted but that WAS checkpointed once: keeping
                            // it is allowed, and what is loaded must be what was written under it
                            if let Some(snap) = m.ever.get(&g).cloned() {
                                m.q = snap.iter().copied().collect();
                                reloaded = true;
                                ctx.count("loads_of_a_retained_older_checkpoint");
                            } else {
                                viol!("C17.reload.ok", "reload_phantom", kind, format!("op #{i} load_from_disk({g}) succeeded although generation {g} was never checkpointed"));
                            }
                        }
                    }
                }
                Op::RunCycle { limit, avg } | Op::Restart { limit, avg } => {
                    if matches!(op, Op::Restart { .. }) {
                        lru = LruManager::new(case.capacity, dir.clone());
                        m.q.clear();
                        ctx.count("restarts");
                    }
                    let r = rt.block_on(lru.run_cycle(*limit, *avg));
                    ctx.obs(&[r.is_ok() as u8]);
                    let stats = match r {
                        Ok(s) => s,
                        Err(e) => {
                            viol!("C17.reload.ok", "reload_failed", kind, format!("op #{i} run_cycle failed without any injected fault: {e}"));
                        }
                    };
                    ctx.event(|| json!({"k":"op","op":kind,"limit":limit,"avg":avg,"loaded":stats.loaded_entries,"evicted":stats.entries_evicted,"active":stats.active_entries}));
                    let mut exp_loaded = 0usize;
                    if let Some((_, snap)) = m.disk.iter().next_back() {
                        m.q = snap.iter().copied().collect();
                        exp_loaded = m.q.len();
                        reloaded = true;
                    }
                    let mut exp_ev = 0usize;
                    if *limit > 0 && *avg > 0 {
                        let cur = m.q.len() as u64 * *avg;
                        if cur > *limit {
                            exp_ev = m.evict_to_target(cur - *limit, *avg).0;
                            ext_evicted |= exp_ev > 0;
                        }
                    }
                    // scan_directory keeps only generation() and prev_generation()
                    let (g, p) = (lru.generation(), lru.prev_generation());
                    m.disk.retain(|k, _| *k == g || *k == p);
                    if stats.loaded_entries != exp_loaded || stats.entries_evicted != exp_ev {
                        ctx.count("run_cycle_stats_differ_from_model");
                    }
                }
                Op::Shutdown => {
                    let r = rt.block_on(lru.shutdown());
                    ctx.event(|| json!({"k":"op","op":"shutdown","ok":r.is_ok(),"gen":lru.generation()}));
                    if let Err(e) = r {
                        viol!("C17.checkpoint.ok", "checkpoint_failed", kind, format!("op #{i} shutdown failed without any injected fault: {e}"));
                    }
                    let (g, p) = (lru.generation(), lru.prev_generation());
                    m.disk.insert(g, m.q.iter().copied().collect());
                    m.ever.insert(g, m.q.iter().copied().collect());
                    if p != 0 && p != g {
                        m.disk.remove(&p);
                    }
                    m.disk.retain(|k, _| *k == g || *k == p);
                    mutating = false;
                }
                Op::Fill { n, tag } => {
                    for j in 0..*n as usize {
                        let mut k = [0xDDu8; 9];
                        k[0] = (j & 0xff) as u8;
                        k[1] = (j >> 8) as u8;
                        k[2] ^= (j >> 16) as u8;
                        k[3] ^= (j >> 24) as u8;
                        k[7] = *tag;
                        k[8] = 0xF1;
                        let r = lru.touch(&k);
                        // (the keys of the first fill of a run are certainly new; a later fill may repeat them: search)
                        if fills_done == 0 {
                            m.touch_fresh(k);
                        } else {
                            m.touch(k);
                        }
                        if !r && case.capacity > 0 {
                            viol!("C17.touch.present", "touch_refused", kind, format!("op #{i} fill: touch of fresh key #{j} of {n} returned false (capacity {})", case.capacity));
                        }
                    }
                    fills_done += 1;
                    ctx.count("fills");
                    ctx.event(|| json!({"k":"op","op":"fill","n":n,"tag":tag}));
                }
                Op::ColdRestart => {
                    lru = LruManager::new(case.capacity, dir.clone());
                    m.q.clear();
                    ctx.count("cold_restarts");
                    ctx.event(|| json!({"k":"op","op":"cold_restart"}));
                }
                Op::Reset => {
                    lru.reset();
                    m.q.clear();
                    ctx.event(|| json!({"k":"op","op":"reset"}));
                }
            }
            if mutating {
                ctx.mutations += 1;
            }
            if has_zero && !zero_was_live && m.q.iter().any(|k| *k == [0u8; 9]) {
                zero_was_live = true;
            }

            // ---- invariants after every operation ----
            let len = lru.len();
            if len > case.capacity as usize {
                viol!("C17.bound.capacity", "over_capacity", kind, format!("after op #{i} ({kind}) len()={len} > capacity={}", case.capacity));
            }
            if len != m.q.len() {
                viol!("C17.model.len", "len_mismatch", kind, format!("after op #{i} ({kind}) len()={len}, textbook LRU holds {}", m.q.len()));
            }
            for k in &keys {
                let r = lru.contains(k);
                let e = m.q.contains(k);
                if r != e {
                    viol!("C17.model.contains", "contains_mismatch", kind, format!("after op #{i} ({kind}) contains({})={r}, textbook LRU says {e}", hex::encode(k)));
                }
            }
            let mut order: Vec<Key> = Vec::with_capacity(len);
            lru.for_each_entry(|k| order.push(*k));
            let exp: Vec<Key> = m.q.iter().copied().collect();
            if order != exp {
                let f = |v: &Vec<Key>| v.iter().map(|k| hex::encode(k)).collect::<Vec<_>>().join(",");
                viol!("C17.model.order", "order_mismatch", kind, format!("after op #{i} ({kind}) recency order LRU->MRU is [{}], textbook LRU has [{}]", f(&order), f(&exp)));
            }
            for k in &order {
                ctx.obs(&k[..2]);
            }
            ctx.state(m.hash());
        }

        // ---- capacity is never lost: the tracker can still hold `capacity` keys ----
        let cap = case.capacity as usize;
        for j in 0..cap {
            // distinct for every j (tables of more than 65536 slots exist)
            let mut k = [0xEEu8; 9];
            k[0] = (j & 0xff) as u8;
            k[1] = (j >> 8) as u8;
            k[2] ^= (j >> 16) as u8;
            k[3] ^= (j >> 24) as u8;
            k[8] = 0x5A;
            let r = lru.touch(&k);
            m.touch_fresh(k);
            if !r {
                viol!("C17.capacity.kept", "capacity_lost", "fill", format!("after the history, touch of fresh key #{j} of {cap} returned false: the tracker can no longer hold its capacity"));
            }
            if !lru.contains(&k) {
                viol!("C17.capacity.kept", "capacity_lost", "fill", format!("after the history, fresh key #{j} is not present right after touch returned true"));
            }
        }
        if lru.len() != cap {
            viol!("C17.capacity.kept", "capacity_lost", "fill", format!("after touching {cap} fresh keys len()={} != capacity", lru.len()));
        }
        let mut order: Vec<Key> = Vec::new();
        lru.for_each_entry(|k| order.push(*k));
        let exp: Vec<Key> = m.q.iter().copied().collect();
        if order != exp {
            viol!("C17.model.order", "order_mismatch", "fill", format!("after the final fill the recency order has {} entries, textbook LRU {}", order.len(), exp.len()));
        }
        ctx.event(|| json!({"k":"op","op":"final_fill","len":lru.len()}));
        if ext_evicted {
            ctx.reached("history_with_public_eviction");
        }
        if reloaded {
            ctx.reached("history_with_reload");
        }
        if has_zero {
            ctx.reached("zero_key_in_population");
        }
        if zero_was_live {
            ctx.reached("zero_key_was_live");
        }
        None
    }

    fn shrink(&self, case: &Case) -> Vec<Case> {
        let mut out = Vec::new();
        for ops in shrink_vec(&case.ops) {
            out.push(Case { ops, ..case.clone() });
        }
        // drop keys no operation refers to (indices are remapped)
        {
            let used: Vec<usize> = {
                let mut u: Vec<usize> = case
                    .ops
                    .iter()
                    .filter_map(|o| match o {
                        Op::Touch(k) | Op::Remove(k) => Some(*k % case.keys.len()),
                        _ => None,
                    })
                    .collect();
                u.sort_unstable();
                u.dedup();
                u
            };
            if !used.is_empty() && used.len() < case.keys.len() {
                let keys: Vec<String> = used.iter().map(|i| case.keys[*i].clone()).collect();
                let remap = |k: usize| used.iter().position(|u| *u == k % case.keys.len()).unwrap_or(0);
                let ops = case
                    .ops
                    .iter()
                    .map(|o| match o {
                        Op::Touch(k) => Op::Touch(remap(*k)),
                        Op::Remove(k) => Op::Remove(remap(*k)),
                        o => o.clone(),
                    })
                    .collect();
                out.push(Case { capacity: case.capacity, keys, ops });
            }
        }
        if case.capacity > 1 {
            out.push(Case { capacity: case.capacity - 1, ..case.clone() });
            out.push(Case { capacity: 1, ..case.clone() });
        }
        // simplify single ops
        for (i, op) in case.ops.iter().enumerate() {
            let simpler = match op {
                Op::Touch(k) if *k > 0 => Some(Op::Touch(k - 1)),
                Op::Remove(k) if *k > 0 => Some(Op::Remove(k - 1)),
                Op::EvictToTarget { .. } => Some(Op::EvictTail),
                Op::Restart { limit, avg } if *limit != 0 => Some(Op::Restart { limit: 0, avg: *avg }),
                Op::RunCycle { limit, avg } if *limit != 0 => Some(Op::RunCycle { limit: 0, avg: *avg }),
                Op::Shutdown => Some(Op::Checkpoint),
                _ => None,
            };
            if let Some(s) = simpler {
                let mut ops = case.ops.clone();
                ops[i] = s;
                out.push(Case { ops, ..case.clone() });
            }
        }
        out
    }
}

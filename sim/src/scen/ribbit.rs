//! C15 — what the Ribbit server emits, the Ribbit client reads back as the database says;
//! malformed requests never crash or wedge the server.

use crate::framework::{shrink_vec, Ctx, Scenario, Tier, Violation};
use crate::net::{HttpBehaviour, Network, SegPolicy};
use crate::prng::Rng;
use crate::seams;
use cascette_formats::bpsv::{BpsvDocument, BpsvValue};
use cascette_protocol::{RibbitClient, TactClient};
use serde::{Deserialize, Serialize};
use serde_json::json;
use std::sync::Arc;
use std::time::Duration;
use tokio::io::{AsyncReadExt, AsyncWriteExt};

pub struct Ribbit;

#[derive(Clone, Debug, Serialize, Deserialize, PartialEq)]
pub struct Rec {
    pub product: String,
    pub version: String,
    pub build: String,
    pub keyring: Option<String>,
    pub product_config: Option<String>,
    pub cdn_path: Option<String>,
    pub build_time: String,
    pub hseed: u64,
}

#[derive(Clone, Debug, Serialize, Deserialize, PartialEq)]
pub enum Client {
    /// transport: "tcp1" | "tcp2" | "http"; endpoint: versions | cdns | bgdl | summary
    Good { transport: String, product: String, endpoint: String, delay_ms: u64 },
    /// kind: unknown_product | wrong_arity | empty_line | huge_line | non_utf8 | never_terminated | slow_loris | connect_and_close | unknown_version
    Bad { kind: String, delay_ms: u64 },
}

#[derive(Clone, Debug, Serialize, Deserialize)]
pub struct Case {
    pub db: Vec<Rec>,
    pub clients: Vec<Client>,
    pub seg: String,
    pub net_seed: u64,
    /// the records' `id` field (never served, not required to be unique): 0 = 1, 2, 3, ...; 1 = all 7;
    /// 2 = 1, 2, 1, 2, ...; 3 = descending; 4 = u64::MAX downwards
    #[serde(default)]
    pub id_style: u8,
    /// optional fields that are absent are LEFT OUT of the JSON (instead of written as null), and every record
    /// carries a key the schema does not know ("notes")
    #[serde(default)]
    pub sparse_json: bool,
    /// the server's own configuration (CLI): CDN hosts and default CDN path; None = "cdn.example.test" / "tpr/default"
    #[serde(default)]
    pub cfg_cdn_hosts: Option<String>,
    #[serde(default)]
    pub cfg_cdn_path: Option<String>,
}

fn hash32(seed: u64, salt: u64) -> String {
    let mut r = Rng::new(seed ^ salt.wrapping_mul(0x9E37_79B9));
    let mut b = [0u8; 16];
    r.fill(&mut b);
    hex::encode(b)
}

/// Seconds since an arbitrary epoch (+ fraction) of an RFC 3339 timestamp; None if it is not one.
fn rfc3339(ts: &str) -> Option<f64> {
    let b = ts.as_bytes();
    if b.len() < 20 || b[4] != b'-' || b[7] != b'-' || (b[10] != b'T' && b[10] != b't') || b[13] != b':' || b[16] != b':' {
        return None;
    }
    let num = |s: &str| s.parse::<i64>().ok();
    let (y, mo, d) = (num(&ts[0..4])?, num(&ts[5..7])?, num(&ts[8..10])?);
    let (h, mi, s) = (num(&ts[11..13])?, num(&ts[14..16])?, num(&ts[17..19])?);
    let mut rest = &ts[19..];
    let mut frac = 0.0;
    if let Some(r) = rest.strip_prefix('.') {
        let digits: String = r.chars().take_while(char::is_ascii_digit).collect();
        if digits.is_empty() {
            return None;
        }
        frac = format!("0.{digits}").parse::<f64>().ok()?;
        rest = &r[digits.len()..];
    }
    let off = if rest == "Z" || rest == "z" {
        0
    } else if rest.len() == 6 && (rest.starts_with('+') || rest.starts_with('-')) && rest.as_bytes()[3] == b':' {
        let sign = if rest.starts_with('-') { -1 } else { 1 };
        sign * (num(&rest[1..3])? * 3600 + num(&rest[4..6])? * 60)
    } else {
        return None;
    };
    // days from civil (Howard Hinnant)
    let (y2, m2) = if mo <= 2 { (y - 1, mo + 12) } else { (y, mo) };
    let era = y2.div_euclid(400);
    let yoe = y2 - era * 400;
    let doy = (153 * (m2 - 3) + 2) / 5 + d - 1;
    let doe = yoe * 365 + yoe / 4 - yoe / 100 + doy;
    let days = era * 146_097 + doe - 719_468;
    Some((days * 86_400 + h * 3600 + mi * 60 + s - off) as f64 + frac)
}

#[allow(dead_code)]
const REGIONS_V: [&str; 7] = ["us", "eu", "cn", "kr", "tw", "sg", "xx"];
#[allow(dead_code)]
const REGIONS_C: [&str; 5] = ["us", "eu", "kr", "tw", "cn"];

impl Scenario for Ribbit {
    type Case = Case;
    fn property(&self) -> &'static str {
        "C15"
    }
    fn name(&self) -> &'static str {
        "ribbit"
    }
    fn level(&self) -> &'static str {
        "exploration"
    }
    fn rule(&self) -> &'static str {
        "Per run: a generated build database of 1-6 records (server configuration: one CDN host and path, or - one run in six - several hosts, hosts with query parameters, no host, a default path with a trailing slash or empty; shapes: dates in March 2024 or - one database in five - across 1999 ... 9999 and all months; build numbers now and then 0 / 2^31-1 / 2^31 / 2^32-1; one database in ten with two products whose names differ only in case, a trailing '_' or '.classic'; one in thirty with one product of 300-800 builds, one in thirty with 120-300 products (summary of tens of KiB); one in five written with absent optional fields left out and an unknown key; record ids unique or - one database in five - repeating / descending / near u64::MAX; one database in ten with one build_time string for all records; one in eight with one date and time-of-day (first 19 bytes) for all records and differing fractions of a second / offsets behind it; product names command-safe, one database in twenty with a LONG one - 200 to 4000 bytes, among them lengths that put the TCP request line just below / at / above 1 KiB; version/build/keyring/cdn_path strings from the classes plain, digits, leading zeros, with '|', with '#', with spaces, with CR/LF, non-ASCII, 1 KiB long, look-alikes of the wire framing (MIME boundary, Checksum line, BPSV type marker, seqn line), non-numeric build, non-hex keyring; several builds per product with RFC 3339 timestamps in varying offsets and precisions incl. exact ties) is written to the sandbox and loaded by the REAL server state; databases the server rejects are vacuous. The real TCP accept loop + handle_connection run on the simulated listener and the real axum Router is driven in-process; 1-5 clients start concurrently at seeded virtual times: well-formed requests through the real RibbitClient (TCP v1 with MIME + checksum verification, TCP v2) and real TactClient (HTTP), and malformed ones (unknown product/version, wrong arity, empty line, 64 KiB line, non-UTF-8, never terminated, one byte per virtual second, connect-and-close) over raw simulated connections. Oracle: every row's typed fields equal the record with the chronologically newest build_time of that product; malformed requests end in an error reply or a closed connection within 10 virtual minutes (the server's own read time-out is 10 s; the bound is generous because that time-out is tuning, not part of the property); no task panics; after the last malformed client has started a fresh well-formed request is answered correctly within 3 virtual seconds (a server that serialises connections behind a stalled client takes its whole read time-out). Non-trivial = >= 2 clients; distinct = hash of (case, outcomes)."
    }
    fn assumptions(&self) -> Vec<&'static str> {
        vec![
            "product names are restricted to [a-z0-9_] so that every generated request line / URL is well-formed; the hostile string classes apply to the other database fields",
            "exact timestamp ties: any of the tied records is accepted",
            "the sequence number line is not compared (it is the virtual wall clock)",
        ]
    }
    fn components(&self) -> Vec<(&'static str, &'static str)> {
        vec![
            ("AppState / BuildDatabase load + validate, BpsvResponse formatting, v1 MIME wrapping, v2 handler", "real"),
            ("tcp::start_server accept loop + handle_connection (10 s read time-out, task per connection)", "real (on the simulated listener)"),
            ("axum Router + handlers", "real (Router::oneshot in-process; axum::serve / hyper framing are stubbed out)"),
            ("RibbitClient (TCP v1/v2) and TactClient (HTTP)", "real"),
            ("kernel TCP", "stub (in-process simulated network with seeded segmentation and latency)"),
            ("clocks", "simulated"),
        ]
    }
    fn runs(&self, tier: Tier) -> u64 {
        match tier {
            Tier::Quick => 40_000,
            Tier::Thorough => 1_000_000,
        }
    }

    fn generate(&self, rng: &mut Rng, _tier: Tier) -> Case {
        let nprod = rng.range(1, 2) as usize;
        let mut products: Vec<String> = (0..nprod).map(|i| ["wow", "wow_classic", "d3", "agent7"][(i + rng.usize_below(2)) % 4].to_string()).collect();
        // one database in twelve has a product whose name needs care on some transport (the request line
        // splits on '/', the HTTP client builds a URL from it)
        if rng.chance(1, 12) {
            products[0] = (*rng.pick(&[
                "WoW-Beta.1", "wow beta", "w\u{00f6}w", "wow?x=1", "wow#frag", "wow%41", "wow+plus", "wow&amp",
                // dot segments and characters a URL library rewrites; names equal to route words; a long name
                "..", ".", "wow\\x", "wow;v=1", "wow:80", "user@wow", "products", "summary", "versions", "v1",
                "a-very-long-product-name-a-very-long-product-name-a-very-long-product-name-a-very-long-product-name-a-very-long-product-name",
            ]))
            .to_string();
        }
        // ... and one in twenty a LONG name (the validator sets no upper bound): around 255, around 1 KiB
        // (with the "v1/products/<name>/versions" request line just below / at / above 1024 bytes), 4 KiB
        if rng.chance(1, 20) {
            let n = *rng.pick(&[200usize, 255, 256, 996, 1003, 1004, 1008, 1024, 1100, 4000]);
            let unit = "long_product_name_";
            products[0] = unit.repeat(n / unit.len() + 1)[..n].to_string();
        }
        let nrec = rng.range(1, 6) as usize;
        let hostile = rng.chance(22, 100);
        let mixed_ts = rng.chance(30, 100);
        let gen_str = |rng: &mut Rng, plain: &str, hostile: bool| -> String {
            if !hostile || rng.chance(50, 100) {
                return plain.to_string();
            }
            match rng.below(16) {
                // strings that look like the FRAMING of one of the wire formats (MIME boundary and epilogue
                // of TCP v1, BPSV type markers and sequence-number line)
                9 => format!("{plain}--RibbitBoundary"),
                10 => "--RibbitBoundary--".to_string(),
                11 => format!("{plain} Checksum: 00"),
                12 => format!("{plain}!DEC:4"),
                13 => "## seqn = 1".to_string(),
                // look-alikes of what the CLIENT sniffs to tell a V1 MIME reply from a bare V2 document
                14 => format!("{plain} Content-Type: multipart/alternative"),
                15 => "MIME-Version: 1.0 Content-Type: multipart/mixed; boundary=x".to_string(),
                0 => format!("{plain}|x"),
                1 => format!("{plain}#y"),
                2 => format!("{plain} with spaces"),
                3 => format!("{plain}\nz"),
                4 => format!("{plain}\r"),
                5 => format!("{plain}-\u{00e9}\u{4e2d}"),
                6 => " ".to_string(),
                7 => "v".repeat(1024),
                _ => format!("## {plain}"),
            }
        };
        let mut db = Vec::new();
        let base_day = rng.range(1, 20);
        for i in 0..nrec {
            let product = products[rng.usize_below(nprod)].clone();
            let plain_version = format!("{}.{}.{}.{}", rng.range(1, 11), rng.below(20), rng.below(9), 40_000 + rng.below(9999));
            let version = gen_str(rng, &plain_version, hostile);
            let build = if hostile && rng.chance(30, 100) {
                (*rng.pick(&["007", "1.2a", "99999999999999999999", "-5", "12 ", "0x10"])).to_string()
            } else {
                format!("{}", 30_000 + rng.below(30_000))
            };
            let keyring = match rng.below(10) {
                0..=5 => None,
                6..=7 => Some(hash32(rng.next_u64(), 1)),
                8 => Some(String::new()),
                _ => {
                    if hostile { Some("not-a-keyring".to_string()) } else { None }
                }
            };
            let product_config = if rng.chance(40, 100) { Some(hash32(rng.next_u64(), 2)) } else { None };
            let cdn_path = match rng.below(10) {
                0..=5 => None,
                6..=8 => Some(format!("tpr/{product}")),
                _ => {
                    if hostile { Some(gen_str(rng, "tpr/x", true)) } else { Some("tpr/alt".to_string()) }
                }
            };
            // timestamps: uniform UTC unless mixed
            let (h, mi, s) = (rng.below(24), rng.below(60), rng.below(60));
            let day = base_day + if rng.chance(30, 100) { 0 } else { rng.below(3) };
            let core = format!("2024-03-{day:02}T{h:02}:{mi:02}:{s:02}");
            let build_time = if mixed_ts {
                match rng.below(6) {
                    0 => format!("{core}Z"),
                    1 => format!("{core}+00:00"),
                    2 => format!("{core}.{}Z", rng.range(1, 999)),
                    3 => format!("{core}+0{}:00", rng.range(1, 9)),
                    4 => format!("{core}-0{}:00", rng.range(1, 9)),
                    _ => format!("{core}+05:30"),
                }
            } else {
                format!("{core}+00:00")
            };
            db.push(Rec { product, version, build, keyring, product_config, cdn_path, build_time, hseed: rng.next_u64() ^ i as u64 });
        }
        let nclients = rng.range(1, 5) as usize;
        let mut clients = Vec::new();
        for _ in 0..nclients {
            let delay_ms = rng.below(60);
            if rng.chance(62, 100) {
                let transport = (*rng.pick(&["tcp1", "tcp1", "tcp2", "http"])).to_string();
                let endpoint = if transport == "tcp1" { (*rng.pick(&["versions", "versions", "cdns", "bgdl", "summary"])).to_string() } else { (*rng.pick(&["versions", "versions", "cdns", "bgdl"])).to_string() };
                clients.push(Client::Good { transport, product: products[rng.usize_below(nprod)].clone(), endpoint, delay_ms });
            } else {
                let kind = (*rng.pick(&[
                    "unknown_product", "wrong_arity", "empty_line", "huge_line", "non_utf8", "never_terminated", "slow_loris", "connect_and_close", "unknown_version",
                    "unknown_endpoint", "double_slash", "trailing_slash", "v2_summary", "summary_extra", "nul_in_line", "upper_case", "leading_space", "bare_cr",
                ]))
                .to_string();
                clients.push(Client::Bad { kind, delay_ms });
            }
        }
        let seg = (*rng.pick(&["whole", "bytes1", "random", "blank", "tokens"])).to_string();
        let net_seed = rng.next_u64();
        // drawn last: ids that repeat or run backwards (one database in five), and (one in ten) every record
        // carrying the SAME build_time string - ties across products as well as within one
        let id_style = if rng.chance(1, 5) { rng.range(1, 4) as u8 } else { 0 };
        let mut db = db;
        if rng.chance(1, 10) && !db.is_empty() {
            let t = db[0].build_time.clone();
            for r in db.iter_mut() {
                r.build_time = t.clone();
            }
        }
        // one database in eight: every record carries the date and time-of-day (first 19 bytes) of the first one and
        // differs in what follows only - three-digit fractions of a second (text order = time order) or its own suffix
        if rng.chance(1, 8) && db.len() >= 2 && db[0].build_time.len() >= 19 && db[0].build_time.is_char_boundary(19) {
            let core = db[0].build_time[..19].to_string();
            let fractions = rng.chance(2, 3);
            for r in db.iter_mut() {
                if r.build_time.len() >= 19 && r.build_time.is_char_boundary(19) {
                    let suffix = if fractions { format!(".{:03}Z", rng.below(1000)) } else { r.build_time[19..].to_string() };
                    r.build_time = format!("{core}{suffix}");
                }
            }
        }
        // ---- shape of the database, drawn after everything else ----
        let mut clients = clients;
        let mut seg = seg;
        // dates across years and months instead of a few days of March 2024 (one database in five)
        if rng.chance(1, 5) {
            for r in db.iter_mut() {
                if r.build_time.len() >= 10 {
                    let y = *rng.pick(&[1999u32, 2019, 2024, 2024, 2025, 2038, 9999]);
                    r.build_time = format!("{y:04}-{:02}-{:02}{}", rng.range(1, 12), rng.range(1, 28), &r.build_time[10..]);
                }
            }
        }
        // build numbers at the edges of what the DEC:4 column and the validator take (one record in twenty)
        for r in db.iter_mut() {
            if rng.chance(1, 20) {
                r.build = (*rng.pick(&["0", "1", "2147483647", "2147483648", "4294967295"])).to_string();
            }
        }
        // two products whose names differ only in case, by one trailing character, or by a dot (one in ten)
        if rng.chance(1, 10) {
            let names: Vec<String> = { let mut v: Vec<String> = db.iter().map(|r| r.product.clone()).collect(); v.sort(); v.dedup(); v };
            if names.len() == 2 && names[0].len() < 100 {
                let twin = match rng.below(3) { 0 => names[0].to_uppercase(), 1 => format!("{}_", names[0]), _ => format!("{}.classic", names[0]) };
                if twin != names[0] {
                    for r in db.iter_mut().filter(|r| r.product == names[1]) {
                        r.product = twin.clone();
                    }
                    for c in clients.iter_mut() {
                        if let Client::Good { product, .. } = c {
                            if *product == names[1] {
                                *product = twin.clone();
                            }
                        }
                    }
                }
            }
        }
        // one product with hundreds of builds (one database in thirty), or hundreds of products with one build each
        // (one in thirty): answers and the summary then run to tens of KiB - never cut into single bytes
        match rng.below(30) {
            0 if !db.is_empty() => {
                let proto = db[0].clone();
                for j in 0..rng.range(300, 800) {
                    let mut r = proto.clone();
                    r.build_time = format!("2023-{:02}-{:02}T{:02}:{:02}:{:02}+00:00", rng.range(1, 12), rng.range(1, 28), rng.below(24), rng.below(60), rng.below(60));
                    r.version = format!("0.{j}.0.1");
                    r.hseed = rng.next_u64();
                    db.push(r);
                }
            }
            1 if !db.is_empty() => {
                let proto = db[0].clone();
                for j in 0..rng.range(120, 300) {
                    let mut r = proto.clone();
                    r.product = format!("bulk_product_{j:03}");
                    r.hseed = rng.next_u64();
                    db.push(r);
                }
                clients.push(Client::Good { transport: (*rng.pick(&["tcp1", "tcp2"])).to_string(), product: "bulk_product_007".into(), endpoint: "summary".into(), delay_ms: 5 });
                clients.push(Client::Good { transport: (*rng.pick(&["tcp1", "tcp2", "http"])).to_string(), product: "bulk_product_119".into(), endpoint: "versions".into(), delay_ms: 9 });
            }
            _ => {}
        }
        if db.len() > 50 && seg == "bytes1" {
            seg = "random".into();
        }
        let sparse_json = rng.chance(1, 5);
        // the server's own CDN configuration: several hosts, a host with a query parameter, none at all; a default
        // path with a trailing slash, an empty one (one run in six)
        let (cfg_cdn_hosts, cfg_cdn_path) = if rng.chance(1, 6) {
            (Some((*rng.pick(&["a.test b.test c.test", "a.test?fallback=1 b.test?maxhosts=4", "", "edge-01.cdn.example.test"])).to_string()), Some((*rng.pick(&["tpr/wow/", "", "tpr/default", "tpr/configs/data"])).to_string()))
        } else {
            (None, None)
        };
        Case { db, clients, seg, net_seed, id_style, sparse_json, cfg_cdn_hosts, cfg_cdn_path }
    }

    fn execute(&self, case: &Case, ctx: &mut Ctx) -> Option<Violation> {
        let rt = super::paused_runtime();
        rt.block_on(run(case, ctx))
    }

    fn shrink(&self, case: &Case) -> Vec<Case> {
        let mut out = Vec::new();
        for c in shrink_vec(&case.clients) {
            if !c.is_empty() {
                out.push(Case { clients: c, ..case.clone() });
            }
        }
        if case.db.len() > 1 {
            for d in shrink_vec(&case.db) {
                if !d.is_empty() {
                    out.push(Case { db: d, ..case.clone() });
                }
            }
        }
        if case.seg != "whole" {
            out.push(Case { seg: "whole".into(), ..case.clone() });
        }
        for (i, r) in case.db.iter().enumerate() {
            let mut simpler = r.clone();
            simpler.keyring = None;
            simpler.product_config = None;
            simpler.cdn_path = None;
            if simpler != *r {
                let mut db = case.db.clone();
                db[i] = simpler;
                out.push(Case { db, ..case.clone() });
            }
        }
        out
    }
}

fn seg_of(s: &str) -> SegPolicy {
    match s {
        "bytes1" => SegPolicy::Bytes1,
        "random" => SegPolicy::Random { max: 6 },
        "blank" => SegPolicy::AfterBlankLines,
        "tokens" => SegPolicy::InsideTokens,
        _ => SegPolicy::Whole,
    }
}

fn hexval(s: &str) -> Option<Vec<u8>> {
    hex::decode(s).ok()
}

/// Does `row` (of a versions/bgdl document) equal what record `r` must produce for `region`?
fn versions_row_matches(doc: &BpsvDocument, row: &cascette_formats::bpsv::BpsvRow, region: &str, r: &Rec) -> Result<(), String> {
    let sch = doc.schema();
    let get = |n: &str| row.get_by_name(n, sch).cloned().unwrap_or(BpsvValue::Empty);
    let exp_hex = |s: &str| -> BpsvValue { if s.is_empty() { BpsvValue::Empty } else { hexval(s).map(BpsvValue::Hex).unwrap_or(BpsvValue::String(format!("<not hex: {s}>"))) } };
    let checks: Vec<(&str, BpsvValue, BpsvValue)> = vec![
        ("Region", get("Region"), BpsvValue::String(region.to_string())),
        ("BuildConfig", get("BuildConfig"), exp_hex(&hash32(r.hseed, 11))),
        ("CDNConfig", get("CDNConfig"), exp_hex(&hash32(r.hseed, 12))),
        ("KeyRing", get("KeyRing"), exp_hex(r.keyring.as_deref().unwrap_or(""))),
        ("BuildId", get("BuildId"), r.build.parse::<i64>().map(BpsvValue::Dec).unwrap_or(BpsvValue::String(format!("<not a decimal: {}>", r.build)))),
        ("VersionsName", get("VersionsName"), if r.version.is_empty() { BpsvValue::Empty } else { BpsvValue::String(r.version.clone()) }),
        ("ProductConfig", get("ProductConfig"), exp_hex(r.product_config.as_deref().unwrap_or(""))),
    ];
    for (name, got, exp) in checks {
        if got != exp {
            // an absent hash may be served as an empty field or as all zeros; a number may be served in a
            // string column as long as the text is the same
            let zeros_for_absent = exp == BpsvValue::Empty && matches!(&got, BpsvValue::Hex(h) if h.iter().all(|b| *b == 0));
            let same_text = matches!((&got, &exp), (BpsvValue::String(g), BpsvValue::Dec(e)) if g == &e.to_string());
            if !(zeros_for_absent || same_text) {
                return Err(format!("column {name}: client read {got:?}, the database record says {exp:?}"));
            }
        }
    }
    Ok(())
}

async fn run(case: &Case, ctx: &mut Ctx) -> Option<Violation> {
    ctx.obs(serde_json::to_string(case).unwrap_or_default().as_bytes());
    // ---- database file + real server state ----
    let recs: Vec<serde_json::Value> = case
        .db
        .iter()
        .enumerate()
        .map(|(i, r)| {
            // hex columns are compared as bytes, so the case the operator used must not matter
            let up = |h: String| if r.hseed % 5 == 0 { h.to_uppercase() } else { h };
            let mut v = json!({
                "id": match case.id_style { 1 => 7, 2 => (i as u64 % 2) + 1, 3 => (case.db.len() - i) as u64, 4 => u64::MAX - i as u64, _ => i as u64 + 1 }, "product": r.product, "version": r.version, "build": r.build,
                "build_config": up(hash32(r.hseed, 11)), "cdn_config": up(hash32(r.hseed, 12)), "keyring": r.keyring.clone().map(&up), "product_config": r.product_config.clone().map(&up),
                "build_time": r.build_time, "encoding_ekey": hash32(r.hseed, 13), "root_ekey": hash32(r.hseed, 14),
                "install_ekey": hash32(r.hseed, 15), "download_ekey": hash32(r.hseed, 16), "cdn_path": r.cdn_path
            });
            if case.sparse_json {
                if let Some(o) = v.as_object_mut() {
                    o.retain(|_, x| !x.is_null());
                    o.insert("notes".into(), json!("imported"));
                }
            }
            v
        })
        .collect();
    let dbfile = ctx.root.join("builds.json");
    std::fs::write(&dbfile, serde_json::to_vec(&recs).unwrap_or_default()).ok()?;
    let cfg = cascette_ribbit::ServerConfig {
        http_bind: "127.0.0.1:8080".parse().ok()?,
        tcp_bind: "127.0.0.1:1119".parse().ok()?,
        builds: dbfile,
        cdn_hosts: case.cfg_cdn_hosts.clone().unwrap_or_else(|| "cdn.example.test".into()),
        cdn_path: case.cfg_cdn_path.clone().unwrap_or_else(|| "tpr/default".into()),
        tls_cert: None,
        tls_key: None,
    };
    let state = match cascette_ribbit::AppState::new(&cfg) {
        Ok(s) => Arc::new(s),
        Err(_) => {
            // the server does not accept this database: outside the property's quantifier
            ctx.count("database_rejected_by_server");
            return None;
        }
    };
    ctx.count("database_accepted");
    let default_cdn = state.cdn_config().clone();

    // ---- network, real TCP server, real router ----
    let t_start = tokio::time::Instant::now();
    let ticker = tokio::spawn(async move {
        loop {
            tokio::time::sleep(Duration::from_millis(10)).await;
            seams::advance_to_at_least(t_start.elapsed().as_nanos() as u64);
        }
    });
    let net = Network::new(case.net_seed);
    net.set_policies(seg_of(&case.seg), seg_of(&case.seg));
    cascette_ribbit::verif_hooks::install_net(Some(Arc::new(net.clone())));
    cascette_protocol::verif_hooks::install_net(Some(Arc::new(net.clone())));
    cascette_protocol::verif_hooks::install_http(Some(Arc::new(net.clone())));
    let server = tokio::spawn(cascette_ribbit::tcp::start_server("127.0.0.1:1119".parse().ok()?, state.clone()));
    let router = cascette_ribbit::http::create_router(state.clone());
    net.script_http(
        "http://sim-http.test",
        Arc::new(move |_host: String, path: String| {
            let router = router.clone();
            Box::pin(async move {
                use tower::ServiceExt;
                let req = match http::Request::builder().uri(&path).body(axum::body::Body::empty()) {
                    Ok(r) => r,
                    Err(_) => return HttpBehaviour::Respond { status: 400, headers: vec![], body: vec![], delay_ms: 1 },
                };
                match router.oneshot(req).await {
                    Ok(resp) => {
                        let status = resp.status().as_u16();
                        let body = axum::body::to_bytes(resp.into_body(), 16 << 20).await.map(|b| b.to_vec()).unwrap_or_default();
                        HttpBehaviour::Respond { status, headers: vec![], body, delay_ms: 3 }
                    }
                    Err(_) => HttpBehaviour::Respond { status: 500, headers: vec![], body: vec![], delay_ms: 1 },
                }
            })
        }),
    );
    for _ in 0..3 {
        tokio::task::yield_now().await;
    }

    // ---- expectations ----
    let newest = |product: &str| -> Vec<&Rec> {
        let mut best: Option<f64> = None;
        let mut out: Vec<&Rec> = Vec::new();
        for r in case.db.iter().filter(|r| r.product == product) {
            let t = rfc3339(&r.build_time).unwrap_or(f64::MIN);
            match best {
                Some(b) if t < b => {}
                Some(b) if (t - b).abs() < 1e-9 => out.push(r),
                _ => {
                    best = Some(t);
                    out = vec![r];
                }
            }
        }
        out
    };
    let products: Vec<String> = {
        let mut p: Vec<String> = case.db.iter().map(|r| r.product.clone()).collect();
        p.sort();
        p.dedup();
        p
    };
    let mixed_ts = case.db.iter().any(|r| !r.build_time.ends_with("+00:00"));

    // known finding C15-F2 is "build_time values are ordered as TEXT": it covers a wrong build only where the textually
    // greatest build_time of the product is not (one of) the chronologically newest
    let ts_class = |product: &str, cands: &[&Rec]| -> String {
        let top = case.db.iter().filter(|r| r.product == product).map(|r| r.build_time.as_str()).max().unwrap_or("");
        let text_order_agrees = case.db.iter().filter(|r| r.product == product && r.build_time == top).all(|r| cands.iter().any(|c| std::ptr::eq(*c, r)));
        if mixed_ts && !text_order_agrees {
            ",timestamps=mixed_formats".into()
        } else if mixed_ts {
            ",timestamps=mixed_formats_text_order_agrees".into()
        } else {
            ",timestamps=uniform_utc".into()
        }
    };
    // judge a well-formed request's result
    let judge = |transport: &str, product: &str, endpoint: &str, res: &Result<BpsvDocument, String>| -> Result<(), (String, String, String)> {
        let known = products.iter().any(|p| p == product);
        let doc = match res {
            Ok(d) => d,
            Err(e) => {
                if !known && endpoint != "summary" {
                    return Ok(());
                }
                return Err(("client_cannot_read_server_reply".into(), format!(",endpoint={endpoint}"), format!("{transport} {product}/{endpoint}: the client failed on the server's reply: {e}")));
            }
        };
        if !known && endpoint != "summary" {
            return Err(("answer_for_unknown_product".into(), String::new(), format!("{transport} {product}/{endpoint}: the product is not in the database yet the client got {} rows", doc.rows().len())));
        }
        match endpoint {
            "versions" | "bgdl" => {
                let cands = newest(product);
                // which regions are served, and in which order, is not part of the property: every row there
                // is must carry the newest build's fields (at least one row)
                if doc.rows().is_empty() {
                    return Err(("wrong_row_count".into(), format!(",endpoint={endpoint}"), format!("{transport} {product}/{endpoint}: no rows for a product that is in the database")));
                }
                let region_of = |row: &cascette_formats::bpsv::BpsvRow| row.get_by_name("Region", doc.schema()).and_then(|v| v.as_string().map(str::to_string)).unwrap_or_default();
                let regions: Vec<String> = doc.rows().iter().map(region_of).collect();
                if regions.iter().any(String::is_empty) || (1..regions.len()).any(|i| regions[..i].contains(&regions[i])) {
                    return Err(("field_mismatch".into(), format!(",endpoint={endpoint}"), format!("{transport} {product}/{endpoint}: empty or repeated Region values {regions:?}")));
                }
                let mut last_err = String::new();
                let ok = cands.iter().any(|r| {
                    doc.rows().iter().zip(regions.iter()).all(|(row, region)| match versions_row_matches(doc, row, region, r) {
                        Ok(()) => true,
                        Err(e) => {
                            last_err = e;
                            false
                        }
                    })
                });
                if !ok {
                    // is it some OTHER (older) record of the product?
                    let older = case.db.iter().filter(|r| r.product == product && !cands.iter().any(|c| std::ptr::eq(*c, *r))).any(|r| doc.rows().iter().zip(regions.iter()).all(|(row, region)| versions_row_matches(doc, row, region, r).is_ok()));
                    if older {
                        return Err(("wrong_build_chosen".into(), ts_class(product, &cands), format!("{transport} {product}/{endpoint}: the rows describe a build that is not the chronologically newest of the product (newest build_time: {})", cands.first().map(|r| r.build_time.as_str()).unwrap_or("?"))));
                    }
                    return Err(("field_mismatch".into(), format!(",endpoint={endpoint}"), format!("{transport} {product}/{endpoint}: {last_err}")));
                }
                Ok(())
            }
            "cdns" => {
                let cands = newest(product);
                if doc.rows().is_empty() {
                    return Err(("wrong_row_count".into(), ",endpoint=cdns".into(), format!("{transport} {product}/cdns: no rows for a product that is in the database")));
                }
                let sch = doc.schema();
                let ok = cands.iter().any(|r| {
                    let path = r.cdn_path.clone().unwrap_or_else(|| default_cdn.path.clone());
                    let cpath = r.cdn_path.clone().unwrap_or_else(|| default_cdn.config_path.clone());
                    doc.rows().iter().all(|row| {
                        let g = |n: &str| row.get_by_name(n, sch).and_then(|v| v.as_string().map(str::to_string)).unwrap_or_default();
                        !g("Name").is_empty() && g("Path") == path && g("Hosts") == default_cdn.hosts && g("Servers") == default_cdn.servers && g("ConfigPath") == cpath
                    })
                });
                if !ok {
                    let matches = |r: &Rec| {
                        let path = r.cdn_path.clone().unwrap_or_else(|| default_cdn.path.clone());
                        doc.rows().iter().all(|row| row.get_by_name("Path", sch).and_then(|v| v.as_string().map(str::to_string)).unwrap_or_default() == path)
                    };
                    if case.db.iter().filter(|r| r.product == product && !cands.iter().any(|c| std::ptr::eq(*c, *r))).any(matches) {
                        return Err(("wrong_build_chosen".into(), ts_class(product, &cands), format!("{transport} {product}/cdns: the rows carry the CDN path of a build that is not the chronologically newest of the product")));
                    }
                    return Err(("field_mismatch".into(), ",endpoint=cdns".into(), format!("{transport} {product}/cdns: the rows do not equal the resolved CDN configuration of the newest build")));
                }
                Ok(())
            }
            _ => {
                // summary: one row per product
                let sch = doc.schema();
                let mut got: Vec<String> = doc.rows().iter().filter_map(|r| r.get_by_name("Product", sch).and_then(|v| v.as_string().map(str::to_string))).collect();
                got.sort();
                if got != products {
                    return Err(("field_mismatch".into(), ",endpoint=summary".into(), format!("{transport} summary lists {got:?}, the database has {products:?}")));
                }
                Ok(())
            }
        }
    };

    // ---- run the clients concurrently ----
    type Out = (usize, String, Result<(), (String, String, String)>);
    let mut handles: Vec<tokio::task::JoinHandle<Out>> = Vec::new();
    let last_bad_start = case.clients.iter().filter_map(|c| if let Client::Bad { delay_ms, .. } = c { Some(*delay_ms) } else { None }).max();
    let do_good = |transport: String, product: String, endpoint: String| async move {
        let ep = if endpoint == "summary" { "v1/summary".to_string() } else { format!("{}/products/{product}/{endpoint}", if transport == "tcp2" { "v2" } else { "v1" }) };
        let res: Result<BpsvDocument, String> = match transport.as_str() {
            "http" => match TactClient::new("http://sim-http.test".into(), false) {
                Ok(c) => c.query(&ep).await.map_err(|e| e.to_string()),
                Err(e) => Err(format!("client construction: {e}")),
            },
            _ => match RibbitClient::new("tcp://sim-tcp.test:1119") {
                Ok(c) => c.query(&ep).await.map_err(|e| e.to_string()),
                Err(e) => Err(format!("client construction: {e}")),
            },
        };
        res
    };
    for (ci, c) in case.clients.iter().enumerate() {
        match c.clone() {
            Client::Good { .. } => {}
            Client::Bad { kind, delay_ms } => {
                let net2 = net.clone();
                handles.push(tokio::spawn(async move {
                    tokio::time::sleep(Duration::from_millis(delay_ms)).await;
                    let t0 = tokio::time::Instant::now();
                    let mut end = match net2.connect_tcp("sim-tcp.test:1119").await {
                        Ok(e) => e,
                        Err(e) => return (ci, format!("bad {kind}: connect failed {e}"), Err(("server_unreachable".into(), String::new(), format!("malformed client '{kind}' could not connect: {e}")))),
                    };
                    let line: Vec<u8> = match kind.as_str() {
                        "unknown_product" => b"v1/products/no_such_product/versions\r\n".to_vec(),
                        "unknown_version" => b"v9/products/wow/versions\r\n".to_vec(),
                        "wrong_arity" => b"v1/products/wow\r\n".to_vec(),
                        "empty_line" => b"\r\n".to_vec(),
                        "huge_line" => {
                            let mut v = vec![b'a'; 65_536];
                            v.extend_from_slice(b"\r\n");
                            v
                        }
                        "non_utf8" => b"\xff\xfe\x80v1/products\r\n".to_vec(),
                        "never_terminated" => b"v1/products/wow/versions".to_vec(),
                        "unknown_endpoint" => b"v1/products/wow/nope\r\n".to_vec(),
                        "double_slash" => b"v1/products//versions\r\n".to_vec(),
                        "trailing_slash" => b"v1/products/wow/versions/\r\n".to_vec(),
                        "v2_summary" => b"v2/summary\r\n".to_vec(),
                        "summary_extra" => b"v1/summary/x\r\n".to_vec(),
                        "nul_in_line" => b"v1/products/w\0w/versions\r\n".to_vec(),
                        "upper_case" => b"V1/PRODUCTS/WOW/VERSIONS\r\n".to_vec(),
                        "leading_space" => b"  v1/products/wow/nope\r\n".to_vec(),
                        "bare_cr" => b"v1/products/wow/nope\r".to_vec(),
                        _ => Vec::new(),
                    };
                    match kind.as_str() {
                        "connect_and_close" => {
                            drop(end);
                            return (ci, "bad connect_and_close".into(), Ok(()));
                        }
                        "slow_loris" => {
                            for b in b"v1/products/wow/versions/and/more/and/more" {
                                if end.write_all(&[*b]).await.is_err() {
                                    break;
                                }
                                tokio::time::sleep(Duration::from_secs(1)).await;
                                if t0.elapsed() > Duration::from_secs(14) {
                                    break;
                                }
                            }
                        }
                        _ => {
                            let _ = end.write_all(&line).await;
                        }
                    }
                    // the server must answer with an error or close the connection eventually. Its read time-out
                    // (10 s today) is tuning the property does not fix, and virtual time is free: allow 10 minutes
                    let mut got = Vec::new();
                    let mut buf = [0u8; 4096];
                    let deadline = Duration::from_secs(600).saturating_sub(t0.elapsed().min(Duration::from_secs(600)));
                    let closed = tokio::time::timeout(deadline.max(Duration::from_millis(1)), async {
                        loop {
                            match end.read(&mut buf).await {
                                Ok(0) | Err(_) => break,
                                Ok(n) => got.extend_from_slice(&buf[..n]),
                            }
                        }
                    })
                    .await
                    .is_ok();
                    let took = t0.elapsed().as_millis();
                    let summary = format!("bad {kind}: closed={closed} after {took}ms, {} reply bytes", got.len());
                    if !closed {
                        // a line that never ends is not yet a request: whether the server times such a connection
                        // out is tuning (it must not wedge the server, which the liveness probe decides)
                        if kind == "never_terminated" || kind == "slow_loris" || kind == "bare_cr" {
                            return (ci, format!("{summary} (unfinished request left open: not judged)"), Ok(()));
                        }
                        return (ci, summary, Err(("connection_not_closed".into(), format!(",kind={kind}"), format!("malformed client '{kind}': {took} ms of virtual time after connecting the server has neither replied with an error nor closed the connection"))));
                    }
                    // a malformed request must not be answered with data rows (request lines a lenient server may
                    // legitimately accept - case, padding, a trailing slash, summary over v2 - are not judged here)
                    let lenient_ok = matches!(kind.as_str(), "trailing_slash" | "upper_case" | "leading_space" | "v2_summary");
                    if !lenient_ok && got.windows(5).any(|w| w == b"|us|\n" || w == b"\nus|") || String::from_utf8_lossy(&got).contains("Region!STRING") {
                        return (ci, summary, Err(("malformed_request_answered".into(), format!(",kind={kind}"), format!("malformed client '{kind}' received a data reply of {} bytes", got.len()))));
                    }
                    (ci, summary, Ok(()))
                }));
            }
        }
    }
    // well-formed clients: run concurrently with the malformed ones, judged when they return
    let mut judged: Vec<tokio::task::JoinHandle<(usize, String, String, String, Result<BpsvDocument, String>, u128)>> = Vec::new();
    for (ci, c) in case.clients.iter().enumerate() {
        if let Client::Good { transport, product, endpoint, delay_ms } = c.clone() {
            let fut = do_good(transport.clone(), product.clone(), endpoint.clone());
            judged.push(tokio::spawn(async move {
                tokio::time::sleep(Duration::from_millis(delay_ms)).await;
                let t0 = tokio::time::Instant::now();
                let r = fut.await;
                (ci, transport, product, endpoint, r, t0.elapsed().as_millis())
            }));
        }
    }
    // bounded liveness probe: after the last malformed client has started
    let probe = if let (Some(d), Some(p)) = (last_bad_start, products.first().cloned()) {
        let fut = do_good("tcp1".into(), p.clone(), "versions".into());
        Some((p, tokio::spawn(async move {
            tokio::time::sleep(Duration::from_millis(d + 200)).await;
            let t0 = tokio::time::Instant::now();
            let r = fut.await;
            (r, t0.elapsed().as_millis())
        })))
    } else {
        None
    };

    let mut first: Option<Violation> = None;
    let mut set = |v: Violation| {
        if first.is_none() {
            first = Some(v);
        }
    };
    for h in handles {
        match h.await {
            Ok((ci, summary, res)) => {
                ctx.event(|| json!({"k":"op","client":ci,"what":summary}));
                if let Some(Client::Bad { kind, .. }) = case.clients.get(ci) {
                    ctx.fault(&format!("malformed_client:{kind}"));
                }
                ctx.obs(summary.split(" took ").next().unwrap_or("").as_bytes());
                if let (Err((class, extra, detail)), Some(Client::Bad { .. })) = (res, case.clients.get(ci)) {
                    set(Violation::new(&format!("C15.{class}"), &class, format!("C15/ribbit/{class}{extra}"), detail));
                }
            }
            Err(e) => set(Violation::new("C15.no_panic", "client_task_failed", "C15/ribbit/client_task_failed", format!("a client task failed: {e}"))),
        }
    }
    for h in judged {
        match h.await {
            Ok((ci, transport, product, endpoint, res, took)) => {
                ctx.event(|| json!({"k":"op","client":ci,"transport":transport,"request":format!("{product}/{endpoint}"),"took_ms":took as u64,"ret":match &res { Ok(d) => format!("Ok({} rows)", d.rows().len()), Err(e) => format!("Err({})", &e[..e.len().min(100)]) }}));
                ctx.obs(format!("{transport}{product}{endpoint}{}", res.is_ok()).as_bytes());
                ctx.count(&format!("requests:{transport}"));
                if let Err((class, extra, detail)) = judge(&transport, &product, &endpoint, &res) {
                    set(Violation::new(&format!("C15.{class}"), &class, format!("C15/ribbit/{class}{extra}"), detail));
                }
            }
            Err(e) => set(Violation::new("C15.no_panic", "client_task_failed", "C15/ribbit/client_task_failed", format!("a client task failed: {e}"))),
        }
    }
    if let Some((p, h)) = probe {
        match h.await {
            Ok((res, took)) => {
                ctx.event(|| json!({"k":"op","client":"liveness_probe","took_ms":took as u64,"ok":res.is_ok()}));
                ctx.count("liveness_probes");
                let j = judge("tcp1", &p, "versions", &res);
                if took > 3000 {
                    set(Violation::new("C15.bounded_liveness", "server_wedged", "C15/ribbit/server_wedged", format!("a well-formed request sent after the last malformed client had started took {took} ms of virtual time (bound: 3000 ms)")));
                } else if let Err((class, extra, detail)) = j {
                    set(Violation::new(&format!("C15.{class}"), &class, format!("C15/ribbit/{class}{extra}"), format!("(liveness probe) {detail}")));
                }
            }
            Err(e) => set(Violation::new("C15.no_panic", "client_task_failed", "C15/ribbit/client_task_failed", format!("the liveness probe task failed: {e}"))),
        }
    }
    if server.is_finished() {
        set(Violation::new("C15.server_alive", "server_exited", "C15/ribbit/server_exited", "the TCP accept loop terminated".to_string()));
    }
    server.abort();
    ticker.abort();
    cascette_ribbit::verif_hooks::install_net(None);
    cascette_protocol::verif_hooks::install_net(None);
    cascette_protocol::verif_hooks::install_http(None);
    for (k, v) in net.counters() {
        ctx.count_n(&k, v);
    }
    ctx.mutations = case.clients.len() as u32;
    ctx.count_n("tokio_virtual_ms", t_start.elapsed().as_millis() as u64);
    ctx.state(Ctx::hash_of(format!("{}:{}", case.db.len(), case.clients.len()).as_bytes()));
    first
}

//! C04 — local storage returns every stored object byte for byte, at any later time
//! (after further writes of any sizes, and after close + reopen).

use crate::framework::{shrink_vec, Ctx, Scenario, Tier, Violation};
use crate::prng::Rng;
use cascette_client_storage::container::dynamic::DynamicContainer;
use cascette_client_storage::container::{AccessMode, Container};
use cascette_client_storage::storage::archive_file::ArchiveManager;
use cascette_client_storage::Installation;
use cascette_crypto::EncodingKey;
use cascette_formats::blte::{BlteFile, CompressionMode};
use cascette_formats::CascFormat;
use serde::{Deserialize, Serialize};
use serde_json::json;

pub struct Store;

#[derive(Clone, Debug, Serialize, Deserialize, PartialEq)]
pub enum Op {
    /// payload class, size, compress flag (installation / archive manager)
    Write { class: u8, size: usize, compress: bool },
    /// write the same bytes as earlier object #j again (same encoding key)
    Rewrite(usize),
    /// write, as a new object, the stored IMAGE of earlier object #j: form 0 = the single-chunk mode-N BLTE file
    /// of its bytes (what the storage itself builds), 1 = the ZLib one, 2 = a local header + the mode-N image,
    /// 3 = the 16 bytes of its encoding key, 4 = the 16 bytes of its content key (MD5 of the plain bytes)
    WriteImageOf { j: usize, form: u8 },
    /// container only: write `n` small distinct objects whose encoding keys all fall into index bucket `b`
    /// (the payloads are filtered by their key): the bucket's 1260-entry update section fills and is merged while
    /// the container runs, and with 3700 the sorted section of its .idx file passes 64 KiB
    BulkWrite { n: u32, b: u8 },
    Read(usize),
    ReadAll,
    Query(usize),
    QueryAbsent,
    Remove(usize),
    Flush { bucket: Option<u8> },
    Reopen,
}

#[derive(Clone, Debug, Serialize, Deserialize)]
pub struct Case {
    /// "container" | "installation" | "archive"
    pub sys: String,
    /// archive manager compression mode: "None" | "ZLib" | "LZ4"
    pub mode: String,
    pub ops: Vec<Op>,
    /// what DynamicContainer::write receives as its `key` argument: "" / "ekey" = the encoding key,
    /// "content" = MD5 of the plain content (a content key), "random" = unrelated bytes. Objects are
    /// always read back by their ENCODING key, which is what the property promises.
    #[serde(default)]
    pub caller_key: String,
}

const CLASSES: [&str; 9] = ["random", "compressible", "empty", "one_byte", "starts_with_BLTE", "BLTE_at_0x1E", "nested_blte", "local_header_then_blte", "zeros"];

fn mode_of(s: &str) -> CompressionMode {
    match s {
        "ZLib" => CompressionMode::ZLib,
        "LZ4" => CompressionMode::LZ4,
        _ => CompressionMode::None,
    }
}

fn blte_of(data: &[u8], mode: CompressionMode) -> Option<Vec<u8>> {
    BlteFile::single_chunk(data.to_vec(), mode).ok()?.build().ok()
}

/// Build the payload of class `class` with (about) `size` bytes; `tag` makes it unique.
fn make_payload(class: u8, size: usize, tag: u64) -> Vec<u8> {
    let base = super::payload(tag, size.max(8));
    match class % 9 {
        0 => super::payload(tag, size),
        1 => {
            let mut v = vec![b'a'; size];
            for (i, b) in tag.to_le_bytes().iter().enumerate() {
                if i < v.len() {
                    v[i] = *b;
                }
            }
            v
        }
        2 => Vec::new(),
        3 => vec![(tag & 0xff) as u8],
        4 => {
            let mut v = b"BLTE".to_vec();
            v.extend_from_slice(&base);
            v
        }
        5 => {
            let mut v = base.clone();
            v.resize(v.len().max(0x1E), 0x55);
            v.truncate(0x1E);
            v.extend_from_slice(b"BLTE");
            v.extend_from_slice(&base);
            v
        }
        6 => blte_of(&base, if tag % 2 == 0 { CompressionMode::None } else { CompressionMode::ZLib }).unwrap_or(base),
        7 => {
            let inner = blte_of(&base, CompressionMode::None).unwrap_or_else(|| base.clone());
            let ek = *EncodingKey::from_data(&inner).as_bytes();
            let h = cascette_client_storage::storage::local_header::LocalHeader::new(ek, inner.len() as u32, 0);
            let mut v = h.to_bytes().to_vec();
            v.extend_from_slice(&inner);
            v
        }
        _ => vec![0u8; size],
    }
}

struct Obj {
    ekey: [u8; 16],
    data: Vec<u8>,
    live: bool,
    class: u8,
    /// archive manager only: where write_content said it put it
    loc: (u16, u32, u32),
}

enum Sut {
    Container(DynamicContainer),
    Install(Installation),
    Archive(ArchiveManager),
}

async fn open_sut(sys: &str, mode: CompressionMode, dir: &std::path::Path) -> Result<Sut, String> {
    match sys {
        "container" => {
            let c = DynamicContainer::new(AccessMode::ReadWrite, dir.to_path_buf(), false, 0x3FF, 0x4000_0000, false).map_err(|e| e.to_string())?;
            c.open().await.map_err(|e| e.to_string())?;
            Ok(Sut::Container(c))
        }
        "installation" => {
            let i = Installation::open(dir.to_path_buf()).map_err(|e| e.to_string())?;
            i.initialize().await.map_err(|e| e.to_string())?;
            Ok(Sut::Install(i))
        }
        _ => {
            std::fs::create_dir_all(dir).map_err(|e| e.to_string())?;
            let mut a = ArchiveManager::with_compression(dir, mode);
            a.open_all().await.map_err(|e| e.to_string())?;
            Ok(Sut::Archive(a))
        }
    }
}

impl Scenario for Store {
    type Case = Case;
    fn property(&self) -> &'static str {
        "C04"
    }
    fn name(&self) -> &'static str {
        "store"
    }
    fn level(&self) -> &'static str {
        "exploration"
    }
    fn rule(&self) -> &'static str {
        "Seeded histories (2-15 ops) of write/read/read-all/query/query-absent/remove/flush/reopen on three real front ends over one sandbox directory: DynamicContainer, Installation, and a bare ArchiveManager in each compression mode (None/ZLib/LZ4). Payload classes: random, compressible, empty, 1 byte, starting with 'BLTE', 'BLTE' at offset 0x1E, a complete nested BLTE file, a valid local header followed by BLTE, zeros, (one container run in 100: op bulk_write = 1261 ... 3700 small objects whose keys fall into ONE index bucket) and (op write_image_of) the stored IMAGE of an object written EARLIER in the same run - its mode-N or ZLib single-chunk BLTE file, a local header + that image, its 16-byte encoding key, its 16-byte content key; size patterns large-then-small / shrinking / growing / equal / doubling (1 B - 256 KiB). After EVERY op the latest object and one older object are read back and compared byte for byte with a map model; all objects at the end; reopen = drop + fresh instance on the same directory. Non-trivial = >= 2 state-changing ops; distinct = hash of (config, ops, observed results)."
    }
    fn assumptions(&self) -> Vec<&'static str> {
        vec![
            "the encoding key of an object is MD5(BLTE(single_chunk(data, mode))) computed with the public cascette-formats API (cross-checked against the key the store reports; a mismatch is a harness error, not a violation)",
            "reopen is a clean close (no crash: C06)",
            "a write that returns Err is not a violation (the property speaks about writes that succeeded); it is counted",
        ]
    }
    fn components(&self) -> Vec<(&'static str, &'static str)> {
        vec![
            ("DynamicContainer (index + archive + segment allocator)", "real"),
            ("Installation (index manager, archive manager, read cache)", "real"),
            ("ArchiveManager (BLTE wrap, local header, mmap reads, write positions)", "real"),
            ("memmap2 / std::fs / tokio::fs on tmpfs sandbox", "real"),
        ]
    }
    fn runs(&self, tier: Tier) -> u64 {
        match tier {
            Tier::Quick => 60_000,
            Tier::Thorough => 1_500_000,
        }
    }

    fn generate(&self, rng: &mut Rng, _tier: Tier) -> Case {
        let sys = *rng.pick(&["container", "container", "installation", "installation", "archive"]);
        let mode = if sys == "archive" { *rng.pick(&["None", "ZLib", "LZ4"]) } else { "None" };
        let nops = match rng.below(100) {
            0..=24 => rng.range(2, 3),
            25..=84 => rng.range(4, 9),
            _ => rng.range(10, 15),
        } as usize;
        // size schedule pattern
        let pattern = rng.below(6);
        let mut cur: usize = match pattern {
            0 => *rng.pick(&[1000usize, 70_000, 262_144, 5000]), // large then small / shrinking
            1 => *rng.pick(&[1usize, 10, 100]),                   // growing
            2 => *rng.pick(&[64usize, 4096, 1000]),               // equal
            3 => 16,                                              // doubling
            _ => 0,                                               // i.i.d.
        };
        let mut w = [34u32, 18, 6, 8, 4, if sys == "container" { 8 } else { 0 }, if sys == "container" { 5 } else { 0 }, 12, 7];
        for (i, wi) in w.iter_mut().enumerate() {
            if i != 0 && rng.chance(20, 100) {
                *wi = 0;
            }
        }
        let mut ops = Vec::with_capacity(nops);
        let mut nobj = 0usize;
        for j in 0..nops {
            let pick = if j == 0 { 0 } else { rng.weighted(&w) };
            let op = match pick {
                0 => {
                    let size = match pattern {
                        0 => {
                            let s = cur;
                            cur = (cur / (2 + rng.below(9) as usize)).max(1);
                            s
                        }
                        1 => {
                            let s = cur;
                            cur = (cur * (2 + rng.below(4) as usize)).min(262_144);
                            s
                        }
                        2 => cur,
                        3 => {
                            let s = cur;
                            cur = (cur * 2).min(262_144);
                            s
                        }
                        _ => match rng.below(10) {
                            0 => 0,
                            1 => 1,
                            2..=5 => rng.range(2, 200) as usize,
                            6..=7 => rng.range(200, 5000) as usize,
                            8 => *rng.pick(&[4095usize, 4096, 4097, 65_535, 65_536, 65_537]),
                            _ => rng.range(5000, 262_144) as usize,
                        },
                    };
                    let class = match rng.below(100) {
                        0..=39 => 0,
                        40..=49 => 1,
                        50..=54 => 2,
                        55..=59 => 3,
                        60..=69 => 4,
                        70..=77 => 5,
                        78..=87 => 6,
                        88..=93 => 7,
                        _ => 8,
                    };
                    nobj += 1;
                    Op::Write { class, size, compress: rng.chance(1, 2) }
                }
                1 => Op::Read(rng.usize_below(nobj.max(1))),
                2 => Op::ReadAll,
                3 => Op::Query(rng.usize_below(nobj.max(1))),
                4 => Op::QueryAbsent,
                5 => Op::Remove(rng.usize_below(nobj.max(1))),
                6 => Op::Flush { bucket: if rng.chance(1, 2) { None } else { Some(rng.below(16) as u8) } },
                7 => Op::Reopen,
                8 if rng.chance(1, 2) => {
                    nobj += 1;
                    Op::WriteImageOf { j: rng.usize_below((nobj - 1).max(1)), form: rng.below(5) as u8 }
                }
                _ => Op::Rewrite(rng.usize_below(nobj.max(1))),
            };
            ops.push(op);
        }
        // drawn after the history: one container run in 100 has one bulk write somewhere in it
        let bulk = if sys == "container" && rng.chance(1, 100) { Some((rng.range(1, ops.len() as u64) as usize, *rng.pick(&[1261u32, 1300, 3700, 3700]), rng.below(16) as u8)) } else { None };
        if let Some((at, n, b)) = bulk {
            ops.insert(at.min(ops.len()), Op::BulkWrite { n, b });
            // two runs in three go on with what makes a large bucket matter: merge everything into the sorted
            // section, leave a few more entries of the same bucket pending, close and reopen
            if rng.chance(2, 3) {
                // ... after removing / re-writing / reading a few objects from the middle of the bulk (indices past
                // the handful of ordinary objects address the bulk), and sometimes with a second large bucket
                for _ in 0..rng.range(0, 3) {
                    let j = nobj + rng.below(u64::from(n)) as usize;
                    ops.push(match rng.below(3) {
                        0 => Op::Remove(j),
                        1 => Op::Rewrite(j),
                        _ => Op::Read(j),
                    });
                }
                if rng.chance(1, 4) {
                    ops.push(Op::BulkWrite { n: 1300, b: (b + 1 + rng.below(15) as u8) % 16 });
                }
                ops.push(Op::Flush { bucket: None });
                ops.push(Op::BulkWrite { n: 2, b });
                ops.push(Op::Reopen);
            }
        }
        let caller_key = if sys == "container" { (*rng.pick(&["ekey", "content", "content", "random"])).to_string() } else { String::new() };
        Case { sys: sys.to_string(), mode: mode.to_string(), ops, caller_key }
    }

    fn execute(&self, case: &Case, ctx: &mut Ctx) -> Option<Violation> {
        let rt = super::paused_runtime();
        rt.block_on(run(case, ctx))
    }

    fn shrink(&self, case: &Case) -> Vec<Case> {
        let mut out = Vec::new();
        for ops in shrink_vec(&case.ops) {
            out.push(Case { ops, ..case.clone() });
        }
        for (i, op) in case.ops.iter().enumerate() {
            if let Op::Write { class, size, compress } = op {
                let mut alts = Vec::new();
                if *size > 1 {
                    alts.push(Op::Write { class: *class, size: size / 2, compress: *compress });
                    alts.push(Op::Write { class: *class, size: size - 1, compress: *compress });
                }
                if *class != 0 {
                    alts.push(Op::Write { class: 0, size: *size, compress: *compress });
                }
                if *compress {
                    alts.push(Op::Write { class: *class, size: *size, compress: false });
                }
                for a in alts {
                    let mut ops = case.ops.clone();
                    ops[i] = a;
                    out.push(Case { ops, ..case.clone() });
                }
            }
        }
        out
    }
}

async fn read_obj(sut: &Sut, o: &Obj) -> Result<Vec<u8>, String> {
    match sut {
        Sut::Container(c) => {
            // the whole object is asked for (offset 0, its length) into a buffer that is exactly as long as the
            // object for every third object, generous otherwise
            let exact = o.data.len() % 3 == 0;
            let mut buf = vec![0u8; if exact { o.data.len() } else { o.data.len() + 4096 }];
            let n = c.read(&o.ekey, 0, o.data.len() as u32, &mut buf).await.map_err(|e| format!("{e}"))?;
            buf.truncate(n);
            Ok(buf)
        }
        Sut::Install(i) => i.read_file_by_encoding_key(&EncodingKey::from_bytes(o.ekey)).await.map_err(|e| format!("{e}")),
        Sut::Archive(a) => a.read_content(o.loc.0, o.loc.1, o.loc.2).map_err(|e| format!("{e}")),
    }
}

async fn query_obj(sut: &Sut, ekey: &[u8; 16]) -> Option<bool> {
    match sut {
        Sut::Container(c) => c.query(ekey).await.ok(),
        Sut::Install(i) => Some(i.has_encoding_key(&EncodingKey::from_bytes(*ekey)).await),
        Sut::Archive(_) => None,
    }
}

async fn run(case: &Case, ctx: &mut Ctx) -> Option<Violation> {
    let dir = ctx.root.join("store");
    let mode = mode_of(&case.mode);
    let mut sut = match open_sut(&case.sys, mode, &dir).await {
        Ok(s) => s,
        Err(e) => return Some(Violation::new("C04.open", "open_failed", format!("C04/{}/open_failed/fresh", case.sys), format!("opening a fresh store failed: {e}"))),
    };
    let mut objs: Vec<Obj> = Vec::new();
    let mut reopened = false;
    ctx.obs(case.sys.as_bytes());
    ctx.obs(case.mode.as_bytes());

    let sys = case.sys.clone();
    let viol = move |oracle: &str, class: &str, o: Option<&Obj>, reopened: bool, extra: &str, detail: String| -> Violation {
        let sig = format!(
            "C04/{}/{}{}{}{}",
            sys,
            class,
            extra,
            // the payload class only discriminates content-dependent failures
            o.filter(|_| class == "wrong_bytes" || class == "panic").map(|o| format!(",payload={}", CLASSES[(o.class % 9) as usize])).unwrap_or_default(),
            if reopened { ",after_reopen" } else { "" }
        );
        Violation::new(oracle, class, sig, detail)
    };

    // check one object against the model
    async fn check(sut: &Sut, o: &Obj, idx: usize, when: &str) -> Option<(&'static str, &'static str, String)> {
        let r = read_obj(sut, o).await;
        if o.live {
            match r {
                Ok(b) if b == o.data => {}
                Ok(b) => {
                    let first = b.iter().zip(o.data.iter()).position(|(x, y)| x != y).unwrap_or(b.len().min(o.data.len()));
                    return Some(("wrong_bytes", "", format!("{when}: object #{idx} ({} bytes, ekey {}) read back as {} bytes, first difference at offset {first}", o.data.len(), hex::encode(o.ekey), b.len())));
                }
                Err(e) => {
                    let kind = if e.contains("runcated") {
                        ",kind=truncated"
                    } else if e.contains("not found") || e.contains("not in index") || e.contains("Not found") || e.contains("NotFound") {
                        ",kind=not_found"
                    } else if e.contains("beyond archive bounds") {
                        ",kind=beyond_bounds"
                    } else {
                        ",kind=other"
                    };
                    return Some(("read_error", kind, format!("{when}: reading live object #{idx} ({} bytes, ekey {}) failed: {e}", o.data.len(), hex::encode(o.ekey))));
                }
            }
            if let Some(false) = query_obj(sut, &o.ekey).await {
                return Some(("query_false_for_live", "", format!("{when}: query of live object #{idx} (ekey {}) returned false", hex::encode(o.ekey))));
            }
            // Installation keeps the bytes of every object it has read in a cache of its own: after the first read
            // `read_file_by_encoding_key` no longer looks at the archive. The same object read through the location
            // the index holds for it (no cache on that path) must be the same bytes.
            if let Sut::Install(inst) = sut {
                if let Some(e) = inst.get_all_index_entries().await.into_iter().find(|e| e.key[..] == o.ekey[..9]) {
                    match inst.read_from_archive(e.archive_location.archive_id, e.archive_location.archive_offset, e.size).await {
                        Ok(b) if b == o.data => {}
                        Ok(b) => return Some(("wrong_bytes", ",via=index_location", format!("{when}: object #{idx} ({} bytes, ekey {}) read through the location its index entry gives (archive {}, offset {}, size {}) is {} bytes that differ from what was written", o.data.len(), hex::encode(o.ekey), e.archive_location.archive_id, e.archive_location.archive_offset, e.size, b.len()))),
                        Err(err) => return Some(("read_error", ",via=index_location", format!("{when}: object #{idx} (ekey {}) is readable by key but not through the location its index entry gives (archive {}, offset {}, size {}): {err}", hex::encode(o.ekey), e.archive_location.archive_id, e.archive_location.archive_offset, e.size))),
                    }
                }
            }
        } else {
            if r.is_ok() {
                return Some(("read_ok_for_removed", "", format!("{when}: removed object #{idx} (ekey {}) is still readable", hex::encode(o.ekey))));
            }
            if let Some(true) = query_obj(sut, &o.ekey).await {
                return Some(("query_true_for_removed", "", format!("{when}: query of removed object #{idx} (ekey {}) returned true", hex::encode(o.ekey))));
            }
        }
        None
    }

    for (i, op) in case.ops.iter().enumerate() {
        let name = match op {
            Op::Write { .. } => "write",
            Op::Rewrite(_) => "rewrite",
            Op::WriteImageOf { .. } => "write_image_of",
            Op::BulkWrite { .. } => "bulk_write",
            Op::Read(_) => "read",
            Op::ReadAll => "read_all",
            Op::Query(_) => "query",
            Op::QueryAbsent => "query_absent",
            Op::Remove(_) => "remove",
            Op::Flush { .. } => "flush",
            Op::Reopen => "reopen",
        };
        ctx.obs(name.as_bytes());
        match op {
            Op::Write { .. } | Op::Rewrite(_) | Op::WriteImageOf { .. } => {
                let (class, compress, data) = match op {
                    Op::WriteImageOf { j, form } if !objs.is_empty() => {
                        let o = &objs[*j % objs.len()];
                        let image = blte_of(&o.data, CompressionMode::None).unwrap_or_else(|| o.data.clone());
                        let data = match form % 5 {
                            0 => image,
                            1 => blte_of(&o.data, CompressionMode::ZLib).unwrap_or(image),
                            2 => {
                                let ek = *EncodingKey::from_data(&image).as_bytes();
                                let h = cascette_client_storage::storage::local_header::LocalHeader::new(ek, image.len() as u32, 0);
                                let mut v = h.to_bytes().to_vec();
                                v.extend_from_slice(&image);
                                v
                            }
                            3 => o.ekey.to_vec(),
                            _ => cascette_crypto::ContentKey::from_data(&o.data).as_bytes().to_vec(),
                        };
                        ctx.count("writes_of_an_earlier_objects_image");
                        (&6u8, &false, data)
                    }
                    Op::Write { class, size, compress } => (class, compress, make_payload(*class, *size, ((i as u64 + 1) << 24) | (*size as u64 & 0xFF_FFFF))),
                    Op::Rewrite(j) if !objs.is_empty() => {
                        let o = &objs[*j % objs.len()];
                        (&o.class.clone(), &false, o.data.clone())
                    }
                    _ => (&0u8, &false, make_payload(0, 10, i as u64 + 1)),
                };
                let (class, compress) = (&*class, &*compress);
                let size = &data.len();
                let _ = size;
                let eff_mode = match &sut {
                    Sut::Archive(_) => {
                        if *compress { mode } else { CompressionMode::None }
                    }
                    _ => CompressionMode::None,
                };
                let expect_ekey = blte_of(&data, eff_mode).map(|b| *EncodingKey::from_data(&b).as_bytes());
                let res: Result<([u8; 16], (u16, u32, u32)), String> = match &mut sut {
                    Sut::Container(c) => match expect_ekey {
                        Some(ek) => {
                            let caller: [u8; 16] = match case.caller_key.as_str() {
                                "content" => md5::compute(&data).0,
                                "random" => {
                                    let mut k = [0u8; 16];
                                    k.copy_from_slice(&super::payload(0xCA11_0000 + i as u64, 16));
                                    k
                                }
                                _ => ek,
                            };
                            c.write(&caller, &data).await.map(|()| (ek, (0, 0, 0))).map_err(|e| e.to_string())
                        }
                        None => Err("BLTE encoding of the payload failed in the harness".into()),
                    },
                    Sut::Install(inst) => match expect_ekey {
                        Some(ek) => inst.write_file(data.clone(), *compress).await.map(|_| (ek, (0, 0, 0))).map_err(|e| e.to_string()),
                        None => Err("BLTE encoding of the payload failed in the harness".into()),
                    },
                    Sut::Archive(a) => a.write_content(&data, *compress).map(|(id, off, sz, ek)| (ek, (id, off, sz))).map_err(|e| e.to_string()),
                };
                ctx.event(|| json!({"k":"op","op":"write","class":CLASSES[(*class % 9) as usize],"len":data.len(),"compress":compress,"ret":res.as_ref().map(|(ek, loc)| json!({"ekey":hex::encode(ek),"loc":[loc.0,loc.1,loc.2]})).map_err(|e| e.clone())}));
                match res {
                    Ok((ek, loc)) => {
                        // Installation: the object's encoding key is whatever the store indexed it under. The key
                        // computed here (MD5 of an uncompressed single-chunk BLTE) must be in the index; if the store
                        // encodes differently (say, it starts to compress) the one key that newly appeared is adopted
                        let mut ek = ek;
                        if let Sut::Install(inst) = &sut {
                            let now: std::collections::BTreeSet<[u8; 9]> = inst.get_all_index_entries().await.iter().map(|e| e.key).collect();
                            let mut p9 = [0u8; 9];
                            p9.copy_from_slice(&ek[..9]);
                            if !now.contains(&p9) {
                                let known: std::collections::BTreeSet<[u8; 9]> = objs.iter().map(|o| { let mut k = [0u8; 9]; k.copy_from_slice(&o.ekey[..9]); k }).collect();
                                let fresh: Vec<&[u8; 9]> = now.iter().filter(|k| !known.contains(*k)).collect();
                                if fresh.len() == 1 {
                                    ek = [0u8; 16];
                                    ek[..9].copy_from_slice(fresh[0]);
                                    ctx.count("ekey_learned_from_the_index");
                                } else {
                                    return Some(viol("C04.index.lists_written", "written_object_not_indexed", None, reopened, "", format!("op #{i}: write_file returned Ok but the index lists neither the expected encoding key {} nor exactly one new key ({} new)", hex::encode(p9), fresh.len())));
                                }
                            }
                        }
                        if let (Some(exp), Sut::Archive(_)) = (expect_ekey, &sut) {
                            if exp != ek {
                                panic!("harness: encoding key mismatch: store says {}, MD5(BLTE) is {}", hex::encode(ek), hex::encode(exp));
                            }
                        }
                        ctx.mutations += 1;
                        ctx.obs(&ek[..4]);
                        // same content again => same key: the older object is the same bytes
                        for o in objs.iter_mut() {
                            if o.ekey == ek {
                                o.live = true;
                                o.loc = loc;
                            }
                        }
                        objs.push(Obj { ekey: ek, data, live: true, class: *class, loc });
                    }
                    Err(e) => {
                        ctx.count("write_errors");
                        ctx.obs(b"werr");
                        let _ = e;
                    }
                }
            }
            Op::BulkWrite { n, b } => {
                if let Sut::Container(c) = &mut sut {
                    use cascette_client_storage::index::IndexManager;
                    let mut ctr = 0u64;
                    let mut written = 0u32;
                    while written < *n {
                        ctr += 1;
                        let data = super::payload(0xB0_0000_0000 | ((i as u64) << 24) | ctr, 9 + (ctr % 23) as usize);
                        let Some(image) = blte_of(&data, CompressionMode::None) else { continue };
                        let ek = EncodingKey::from_data(&image);
                        if IndexManager::bucket_for_key(&ek) != *b % 16 {
                            continue;
                        }
                        let ek = *ek.as_bytes();
                        match c.write(&ek, &data).await {
                            Ok(()) => {
                                objs.push(Obj { ekey: ek, data, live: true, class: 0, loc: (0, 0, 0) });
                                written += 1;
                            }
                            Err(e) => {
                                // (a write that fails promises nothing: counted, like every other failed write)
                                ctx.count("write_errors");
                                let _ = e;
                                break;
                            }
                        }
                    }
                    ctx.mutations += 2;
                    ctx.count("bulk_writes");
                    ctx.event(|| json!({"k":"op","op":"bulk_write","n":n,"bucket":b}));
                }
            }
            Op::Read(j) => {
                if !objs.is_empty() {
                    let j = *j % objs.len();
                    if let Some((class, extra, d)) = check(&sut, &objs[j], j, &format!("op #{i} read")).await {
                        return Some(viol("C04.read.exact", class, Some(&objs[j]), reopened, extra, d));
                    }
                }
            }
            Op::ReadAll => {
                for (j, o) in objs.iter().enumerate() {
                    if let Some((class, extra, d)) = check(&sut, o, j, &format!("op #{i} read_all")).await {
                        return Some(viol("C04.read.exact", class, Some(o), reopened, extra, d));
                    }
                }
            }
            Op::Query(j) => {
                if !objs.is_empty() {
                    let j = *j % objs.len();
                    if let Some(q) = query_obj(&sut, &objs[j].ekey).await {
                        ctx.obs(&[q as u8]);
                        if q != objs[j].live {
                            let class = if objs[j].live { "query_false_for_live" } else { "query_true_for_removed" };
                            return Some(viol("C04.query", class, Some(&objs[j]), reopened, "", format!("op #{i} query of object #{j} returned {q}, the model says live={}", objs[j].live)));
                        }
                    }
                }
            }
            Op::QueryAbsent => {
                let mut k = [0x9Cu8; 16];
                k[0] = i as u8;
                if let Some(true) = query_obj(&sut, &k).await {
                    return Some(viol("C04.query", "query_true_for_absent", None, reopened, "", format!("op #{i} query of never-written key {} returned true", hex::encode(k))));
                }
            }
            Op::Remove(j) => {
                if let (Sut::Container(c), false) = (&sut, objs.is_empty()) {
                    let j = *j % objs.len();
                    let ek = objs[j].ekey;
                    let r = c.remove(&ek).await;
                    ctx.event(|| json!({"k":"op","op":"remove","obj":j,"ok":r.is_ok()}));
                    if let (Err(_), false) = (&r, objs[j].live) {
                        // removing what is already gone may be reported as an error
                        ctx.count("remove_of_removed_object_refused");
                    } else if let Err(e) = r {
                        return Some(viol("C04.remove.ok", "remove_failed", Some(&objs[j]), reopened, "", format!("op #{i} remove of object #{j} failed: {e}")));
                    }
                    for o in objs.iter_mut() {
                        if o.ekey == ek {
                            o.live = false;
                        }
                    }
                    ctx.mutations += 1;
                }
            }
            Op::Flush { bucket } => {
                if let Sut::Container(c) = &sut {
                    let r = match bucket {
                        Some(b) => c.flush_bucket(*b),
                        None => c.flush_all_updates(),
                    };
                    ctx.event(|| json!({"k":"op","op":"flush","bucket":bucket,"ok":r.is_ok()}));
                    if let Err(e) = r {
                        return Some(viol("C04.flush.ok", "flush_failed", None, reopened, "", format!("op #{i} flush failed without any injected fault: {e}")));
                    }
                }
            }
            Op::Reopen => {
                drop(sut);
                sut = match open_sut(&case.sys, mode, &dir).await {
                    Ok(s) => s,
                    Err(e) => return Some(viol("C04.reopen.ok", "reopen_failed", None, true, "", format!("op #{i} reopening the store failed: {e}"))),
                };
                reopened = true;
                ctx.count("reopens");
                ctx.event(|| json!({"k":"op","op":"reopen"}));
            }
        }

        // ---- after every operation: the most recent object and one older one ----
        if let Some(last) = objs.last() {
            if let Some((class, extra, d)) = check(&sut, last, objs.len() - 1, &format!("after op #{i} ({name})")).await {
                return Some(viol("C04.read.exact", class, Some(last), reopened, extra, d));
            }
            if objs.len() > 1 {
                let j = (i * 7 + 3) % (objs.len() - 1);
                if let Some((class, extra, d)) = check(&sut, &objs[j], j, &format!("after op #{i} ({name})")).await {
                    return Some(viol("C04.read.exact", class, Some(&objs[j]), reopened, extra, d));
                }
            }
        }
        ctx.state(objs.iter().fold(objs.len() as u64, |h, o| (h ^ u64::from(o.live) ^ (o.data.len() as u64) << 8 ^ u64::from(o.class) << 40).wrapping_mul(0x0000_0100_0000_01B3)) ^ u64::from(reopened));
    }
    for (j, o) in objs.iter().enumerate() {
        if let Some((class, extra, d)) = check(&sut, o, j, "at the end").await {
            return Some(viol("C04.read.exact", class, Some(o), reopened, extra, d));
        }
    }
    if reopened {
        ctx.reached("history_with_reopen");
    }
    None
}

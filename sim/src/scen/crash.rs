//! C06 — a crash at any point of a save leaves old or new state, never a broken one.
//!
//! The history leading to the save is seeded; the crash points (every syscall boundary
//! of the recorded save, inside every write, and every tear variant of un-synced
//! content under the power-loss model) are ENUMERATED for each generated save.

use super::SimKey;
use crate::framework::{shrink_vec, Ctx, Scenario, Tier, Violation};
use crate::fsmodel::{self, Fs};
use crate::prng::Rng;
use crate::seams;
use bytes::Bytes;
use cascette_cache::config::DiskCacheConfig;
use cascette_cache::traits::AsyncCache;
use cascette_cache::DiskCache;
use cascette_client_storage::index::IndexManager;
use cascette_client_storage::kmt::key_state::ResidencyDb;
use cascette_client_storage::lru::LruManager;
use cascette_crypto::EncodingKey;
use serde::{Deserialize, Serialize};
use serde_json::json;
use std::collections::BTreeMap;
use std::path::Path;

pub struct Crash;

#[derive(Clone, Debug, Serialize, Deserialize, PartialEq)]
pub enum M {
    Add { k: usize, a: u16, o: u32, s: u32 },
    Remove { k: usize },
    Burst { n: u32 },
    /// index: remove the first `n` burst keys added so far (tombstones over many keys)
    RemoveBurst { n: u32 },
    /// index: update_entry_status(k, st) - 3 deletes, 6 / 7 set a non-resident flag and keep the entry
    Status { k: usize, st: u8 },
    /// residency: mark_span_non_resident(k, off, len)
    Span { k: usize, off: i32, len: i32 },
    Mark { k: usize, res: bool },
    Touch { k: usize },
    Evict,
    Put { k: usize, len: usize },
}

#[derive(Clone, Debug, Serialize, Deserialize)]
pub struct Case {
    /// "index" | "residency" | "lru" | "diskcache"
    pub obj: String,
    pub pre: Vec<M>,
    pub post: Vec<M>,
    /// index: save_all | flush_all | flush_bucket ; residency: save ; lru: checkpoint | bump_checkpoint | shutdown ; diskcache: put
    pub save: String,
    pub cap: u32,
    /// S_old is established, the object is dropped and LOADED BACK from disk, and only then mutated and
    /// saved under the recorder (a save by an instance that did not create the files)
    #[serde(default)]
    pub reloaded: bool,
    /// residency / lru: nothing was ever saved before the save under test (S_old = "no file yet")
    #[serde(default)]
    pub no_old: bool,
    /// lru: the manager that recovers (and the one after it) is created with THIS capacity instead of the
    /// crashed one's (0 = the same): a configuration change between two starts. A smaller table makes a shorter
    /// checkpoint image than whatever the interrupted save left behind.
    #[serde(default)]
    pub recover_cap: u32,
}

fn idx_key(i: usize) -> [u8; 16] {
    let mut k = [0u8; 16];
    let x = crate::prng::mix(i as u64 + 77);
    k[..8].copy_from_slice(&x.to_le_bytes());
    k[8] = (i as u8).wrapping_mul(37) ^ 0x5C;
    k[9] = i as u8;
    k[0] |= 1;
    k
}
fn idx_bucket(k: &[u8]) -> u8 {
    // the library's own (public) mapping, not a copy of it
    let mut full = [0u8; 16];
    full[..k.len().min(16)].copy_from_slice(&k[..k.len().min(16)]);
    let _ = |h: u8| (h & 0x0F) ^ (h >> 4);
    IndexManager::bucket_for_key(&EncodingKey::from_bytes(full))
}
fn burst_key(c: u32) -> [u8; 16] {
    let mut k = idx_key(0);
    k[..4].copy_from_slice(&c.to_be_bytes());
    k[4] = 0xEE;
    // keep it in idx_key(0)'s bucket
    let want = idx_key(0)[..9].iter().fold(0u8, |a, b| a ^ b);
    let x = k[..8].iter().fold(0u8, |a, v| a ^ v);
    k[8] = want ^ x;
    k
}
fn res_key(i: usize) -> [u8; 16] {
    let mut k = [0x42u8; 16];
    k[0] = i as u8 + 1;
    k[15] = (i as u8).wrapping_mul(17);
    k
}
/// Residency keys that all fall into one bucket (every varying byte appears twice, so the XOR fold is
/// constant): more than 25 of them spill into a second page.
fn res_burst_key(c: u32) -> [u8; 16] {
    let mut k = [0u8; 16];
    k[0] = c as u8;
    k[1] = c as u8;
    k[2] = (c >> 8) as u8;
    k[3] = (c >> 8) as u8;
    k[4] = 0xB5;
    k[15] = 0x21;
    k
}
fn lru_key(i: usize) -> [u8; 9] {
    let mut k = [0x10u8; 9];
    k[0] = i as u8 + 1;
    k[8] = i as u8 ^ 0x3C;
    k
}

type IdxMap = BTreeMap<[u8; 9], (u16, u32, u32)>;

fn k9(k: &[u8; 16]) -> [u8; 9] {
    let mut o = [0u8; 9];
    o.copy_from_slice(&k[..9]);
    o
}

fn is_temp(name: &str) -> bool {
    name.ends_with(".tmp")
}

impl Scenario for Crash {
    type Case = Case;
    fn property(&self) -> &'static str {
        "C06"
    }
    fn name(&self) -> &'static str {
        "crash"
    }
    fn level(&self) -> &'static str {
        "fault_enumeration"
    }
    fn eval_unit(&self) -> &'static str {
        "crash image (one crash point x tear variant of one recorded save), recovered with the real loader"
    }
    fn rule(&self) -> &'static str {
        "Per run: a seeded short history brings one object (index buckets / residency DB / LRU checkpoint / disk-cache entry) to a saved state S_old, a seeded mutation gives S_new, and the save under test (save_all, flush_all_updates, flush_updates_for_bucket, ResidencyDb::save, checkpoint_to_disk with and without bump, shutdown, DiskCache::put) runs with the libc disk recorder on. Then EVERY crash index 0..=n of the recorded syscall log is enumerated under model P (process death; plus every chosen prefix of an in-flight write) and model D (power loss: un-synced content replaced by nothing / prefixes incl. every 512-byte boundary +-1 when exposed under a real name / zeros / stale bytes). Each image is materialised and recovered by a FRESH real loader; the logical content must equal S_old or S_new exactly (per bucket / per key), recovery must not fail or panic, and one more mutate+save+load must round-trip (LRU: in one run in four the recovering manager and its successor are created with another capacity - 1, half, double - than the crashed one). evaluations = crash images; non-trivial run = >= 2 mutations and >= 1 image; distinct = hash of (case, disk log, per-image verdicts)."
    }
    fn assumptions(&self) -> Vec<&'static str> {
        vec![
            "model D is a model of a journalling file system: directory operations persist in order, file content only up to the file's last fsync; files present when the save starts are durable",
            "all files with un-synced content are torn with the same variant in one image (no cross-product)",
            "temporary files are *.tmp (content variants are enumerated exhaustively only where torn content is reachable under a non-temporary name)",
            "the compaction journal is in the property's anchors but not in its list of objects; it is not exercised",
        ]
    }
    fn components(&self) -> Vec<(&'static str, &'static str)> {
        vec![
            ("IndexManager::save_all / flush_* / save_index / load_all", "real"),
            ("ResidencyDb::save / load", "real"),
            ("LruManager::checkpoint_to_disk / shutdown / run_cycle", "real"),
            ("DiskCache::put / write_file / get", "real"),
            ("write/fsync/rename/unlink... issued by the code", "real, observed at the libc boundary (not annotated)"),
            ("what survives a crash", "model (P: prefix of the syscall log; D: journalled metadata + torn un-synced content)"),
        ]
    }
    fn runs(&self, tier: Tier) -> u64 {
        match tier {
            Tier::Quick => 6_000,
            Tier::Thorough => 60_000,
        }
    }

    fn generate(&self, rng: &mut Rng, _tier: Tier) -> Case {
        let obj = *rng.pick(&["index", "index", "residency", "lru", "lru", "diskcache", "diskcache"]);
        let nk = 6usize;
        let gen_ops = |rng: &mut Rng, n: usize, obj: &str| -> Vec<M> {
            (0..n)
                .map(|_| {
                    let k = rng.usize_below(nk);
                    match obj {
                        "index" => match rng.below(10) {
                            0..=6 => M::Add { k, a: rng.below(1024) as u16, o: rng.below(1 << 30) as u32, s: rng.below(1 << 20) as u32 },
                            7 => M::Remove { k },
                            8 => match rng.below(3) {
                                0 => M::RemoveBurst { n: *rng.pick(&[1u32, 21, 400, 1300]) },
                                1 => M::Status { k, st: *rng.pick(&[3u8, 6, 7]) },
                                _ => M::Remove { k },
                            },
                            // (3700 entries in one bucket: the sorted section passes 64 KiB, the update section moves to the next boundary)
                            _ => M::Burst { n: *rng.pick(&[3u32, 30, 400, 1300, 3700]) },
                        },
                        "residency" => {
                            if rng.chance(1, 8) {
                                M::Burst { n: *rng.pick(&[20u32, 30, 60, 300, 1000]) }
                            } else if rng.chance(1, 8) {
                                M::Span { k, off: *rng.pick(&[0i32, 16, 4096, i32::MAX]), len: *rng.pick(&[1i32, 64, 65536]) }
                            } else {
                                M::Mark { k, res: rng.chance(65, 100) }
                            }
                        }
                        "lru" => match rng.below(10) {
                            0..=7 => M::Touch { k },
                            8 => M::Remove { k },
                            _ => M::Evict,
                        },
                        _ => M::Put { k, len: *rng.pick(&[0usize, 1, 10, 100, 600, 5000, 20_000]) },
                    }
                })
                .collect()
        };
        let npre = rng.range(0, 5) as usize;
        let npost = rng.range(1, 4) as usize;
        let pre = gen_ops(rng, npre, obj);
        let mut post = gen_ops(rng, npost, obj);
        let save = match obj {
            "index" => *rng.pick(&["save_all", "save_all", "flush_all", "flush_bucket"]),
            "residency" => "save",
            "lru" => *rng.pick(&["checkpoint", "bump_checkpoint", "bump_checkpoint", "shutdown"]),
            _ => {
                post.truncate(1);
                if !matches!(post.first(), Some(M::Put { .. })) {
                    post = vec![M::Put { k: 0, len: 100 }];
                }
                "put"
            }
        };
        // LRU tables of up to 64 slots give checkpoint files of several 512-byte pages
        let cap = if obj == "lru" && rng.chance(1, 3) { *rng.pick(&[20u32, 40, 64]) } else { rng.range(2, 5) as u32 };
        let reloaded = rng.chance(1, 3);
        let no_old = (obj == "residency" || obj == "lru") && rng.chance(1, 6);
        // drawn last: one LRU run in four restarts with another capacity
        let recover_cap = if obj == "lru" && rng.chance(1, 4) { *rng.pick(&[1u32, (cap / 2).max(1), (cap / 2).max(1), cap * 2]) } else { 0 };
        Case { obj: obj.to_string(), pre, post, save: save.to_string(), cap, reloaded, no_old, recover_cap }
    }

    fn execute(&self, case: &Case, ctx: &mut Ctx) -> Option<Violation> {
        ctx.needs_fault = true;
        let rt = super::paused_runtime();
        rt.block_on(run(case, ctx))
    }

    fn shrink(&self, case: &Case) -> Vec<Case> {
        let mut out = Vec::new();
        for pre in shrink_vec(&case.pre) {
            out.push(Case { pre, ..case.clone() });
        }
        if case.post.len() > 1 {
            for post in shrink_vec(&case.post) {
                if !post.is_empty() {
                    out.push(Case { post, ..case.clone() });
                }
            }
        }
        for (which, list) in [(0, &case.pre), (1, &case.post)] {
            for (i, m) in list.iter().enumerate() {
                let simpler = match m {
                    M::Burst { n } if *n > 1 => Some(M::Burst { n: n / 2 }),
                    M::Put { k, len } if *len > 1 => Some(M::Put { k: *k, len: len / 2 }),
                    _ => None,
                };
                if let Some(s) = simpler {
                    let mut l = list.clone();
                    l[i] = s;
                    out.push(if which == 0 { Case { pre: l, ..case.clone() } } else { Case { post: l, ..case.clone() } });
                }
            }
        }
        out
    }
}

struct Verdicts {
    old: u64,
    new: u64,
}

fn sig(case: &Case, class: &str, cp: &str) -> String {
    format!("C06/{}/{}/save={}/{}", case.obj, class, case.save, cp)
}

async fn run(case: &Case, ctx: &mut Ctx) -> Option<Violation> {
    let work = ctx.root.join("work");
    std::fs::create_dir_all(&work).ok()?;
    let root = ctx.root.to_string_lossy().into_owned();
    let work_s = work.to_string_lossy().into_owned();
    ctx.obs(serde_json::to_string(case).unwrap_or_default().as_bytes());
    ctx.mutations = (case.pre.len() + case.post.len()) as u32;
    let _ = root;

    // ------------------------------------------------------------------ build S_old, S_new, record the save
    let log;
    let base;
    let recover: Box<dyn Fn(&Path) -> std::pin::Pin<Box<dyn std::future::Future<Output = Result<bool, (String, String)>>>>>;
    // recover returns Ok(true) for S_new, Ok(false) for S_old, Err((class, detail)) otherwise

    match case.obj.as_str() {
        "index" => {
            let mut mgr = IndexManager::new(&work);
            let mut model: IdxMap = BTreeMap::new();
            let mut burst = 0u32;
            let apply = |mgr: &mut IndexManager, model: &mut IdxMap, burst: &mut u32, m: &M| -> Result<(), String> {
                match m {
                    M::Add { k, a, o, s } => {
                        let key = idx_key(*k);
                        mgr.add_entry(&EncodingKey::from_bytes(key), *a, *o, *s).map_err(|e| e.to_string())?;
                        model.insert(k9(&key), (*a, *o, *s));
                    }
                    M::Remove { k } => {
                        let key = idx_key(*k);
                        mgr.remove_entry(&EncodingKey::from_bytes(key));
                        model.remove(&k9(&key));
                    }
                    M::Burst { n } => {
                        for c in *burst..*burst + *n {
                            let key = burst_key(c);
                            mgr.add_entry(&EncodingKey::from_bytes(key), (c % 1000) as u16, c, c).map_err(|e| e.to_string())?;
                            model.insert(k9(&key), ((c % 1000) as u16, c, c));
                        }
                        *burst += *n;
                    }
                    M::RemoveBurst { n } => {
                        for c in 0..(*n).min(*burst) {
                            let key = burst_key(c);
                            mgr.remove_entry(&EncodingKey::from_bytes(key));
                            model.remove(&k9(&key));
                        }
                    }
                    M::Status { k, st } => {
                        let key = idx_key(*k);
                        let status = match st {
                            3 => cascette_client_storage::index::UpdateStatus::Delete,
                            6 => cascette_client_storage::index::UpdateStatus::HeaderNonResident,
                            _ => cascette_client_storage::index::UpdateStatus::DataNonResident,
                        };
                        let had = model.contains_key(&k9(&key));
                        mgr.update_entry_status(&EncodingKey::from_bytes(key), status);
                        if had && *st == 3 {
                            model.remove(&k9(&key));
                        }
                    }
                    _ => {}
                }
                Ok(())
            };
            for m in &case.pre {
                if let Err(e) = apply(&mut mgr, &mut model, &mut burst, m) {
                    panic!("harness: pre-history failed: {e}");
                }
            }
            if let Err(e) = mgr.save_all() {
                panic!("harness: establishing S_old failed: {e}");
            }
            if case.reloaded {
                mgr = IndexManager::new(&work);
                if let Err(e) = mgr.load_all().await {
                    panic!("harness: loading S_old back failed: {e}");
                }
                ctx.count("saves_by_a_reloaded_instance");
            }
            for m in &case.post {
                if let Err(e) = apply(&mut mgr, &mut model, &mut burst, m) {
                    panic!("harness: mutation failed: {e}");
                }
            }
            // add_entry flushes (and so saves) a bucket on its own when its update section fills, so
            // S_old is what a fresh loader sees on disk right before the save under test
            base = Fs::snapshot(&work);
            let old: IdxMap = {
                let mut m0 = IndexManager::new(&work);
                if let Err(e) = m0.load_all().await {
                    panic!("harness: loading S_old failed: {e}");
                }
                m0.iter_entries().map(|(_, e)| (e.key, (e.archive_id(), e.archive_offset(), e.size))).collect()
            };
            seams::disk_record(true);
            let r = match case.save.as_str() {
                "flush_all" => mgr.flush_all_updates(),
                "flush_bucket" => mgr.flush_updates_for_bucket(idx_bucket(&idx_key(0))),
                _ => mgr.save_all(),
            };
            seams::disk_record(false);
            log = seams::disk_take_log();
            if let Err(e) = r {
                return Some(Violation::new("C06.save.ok", "save_failed", sig(case, "save_failed", "nofault"), format!("the save under test failed without any injected fault: {e}")));
            }
            let new = model;
            let by_bucket = |m: &IdxMap| -> BTreeMap<u8, IdxMap> {
                let mut out: BTreeMap<u8, IdxMap> = BTreeMap::new();
                for (k, v) in m {
                    out.entry(idx_bucket(k)).or_default().insert(*k, *v);
                }
                out
            };
            let (old_b, new_b) = (by_bucket(&old), by_bucket(&new));
            recover = Box::new(move |img: &Path| {
                let (old_b, new_b) = (old_b.clone(), new_b.clone());
                let img = img.to_path_buf();
                Box::pin(async move {
                    let mut m = IndexManager::new(&img);
                    m.load_all().await.map_err(|e| ("recover_failed".to_string(), format!("load_all failed: {e}")))?;
                    let mut got: BTreeMap<u8, IdxMap> = BTreeMap::new();
                    for (b, e) in m.iter_entries() {
                        got.entry(b).or_default().insert(e.key, (e.archive_id(), e.archive_offset(), e.size));
                    }
                    let empty = IdxMap::new();
                    let mut all_new = true;
                    for b in 0u8..16 {
                        let g = got.get(&b).unwrap_or(&empty);
                        let o = old_b.get(&b).unwrap_or(&empty);
                        let n = new_b.get(&b).unwrap_or(&empty);
                        if g == n {
                            continue;
                        }
                        all_new = false;
                        if g != o {
                            return Err(("mixed_state".to_string(), format!("bucket {b:#x} holds {} entries after recovery; S_old has {}, S_new has {} - it equals neither", g.len(), o.len(), n.len())));
                        }
                    }
                    // usable: one more mutation + save + load round-trips
                    let fresh = {
                        let mut k = idx_key(200);
                        k[10] = 0x77;
                        k
                    };
                    m.add_entry(&EncodingKey::from_bytes(fresh), 5, 6, 7).map_err(|e| ("unusable_after_recovery".to_string(), format!("add_entry on the recovered index failed: {e}")))?;
                    m.save_all().map_err(|e| ("unusable_after_recovery".to_string(), format!("save_all on the recovered index failed: {e}")))?;
                    let mut m2 = IndexManager::new(&img);
                    m2.load_all().await.map_err(|e| ("unusable_after_recovery".to_string(), format!("load_all after a further save failed: {e}")))?;
                    if m2.lookup(&EncodingKey::from_bytes(fresh)).is_none() {
                        return Err(("unusable_after_recovery".to_string(), "an entry added and saved after recovery is gone after the next load".to_string()));
                    }
                    if m2.entry_count() != m.entry_count() {
                        return Err(("unusable_after_recovery".to_string(), format!("after a further save + load the index has {} entries, expected {}", m2.entry_count(), m.entry_count())));
                    }
                    // ... and so does a FLUSH by the recovered instance (a shorter file than a save with pending
                    // updates: whatever an interrupted save left behind must not leak into it). The whole
                    // content is compared, not just the new key.
                    let fresh2 = {
                        let mut k = idx_key(201);
                        k[10] = 0x78;
                        k
                    };
                    m2.add_entry(&EncodingKey::from_bytes(fresh2), 8, 9, 10).map_err(|e| ("unusable_after_recovery".to_string(), format!("add_entry on the reloaded index failed: {e}")))?;
                    let want: BTreeMap<[u8; 9], (u16, u32, u32)> = m2.iter_entries().map(|(_, e)| (e.key, (e.archive_id(), e.archive_offset(), e.size))).collect();
                    m2.flush_all_updates().map_err(|e| ("unusable_after_recovery".to_string(), format!("flush_all_updates on the recovered index failed: {e}")))?;
                    let mut m3 = IndexManager::new(&img);
                    m3.load_all().await.map_err(|e| ("unusable_after_recovery".to_string(), format!("load_all after a further flush failed: {e}")))?;
                    let got3: BTreeMap<[u8; 9], (u16, u32, u32)> = m3.iter_entries().map(|(_, e)| (e.key, (e.archive_id(), e.archive_offset(), e.size))).collect();
                    if got3 != want {
                        let ghosts = got3.keys().filter(|k| !want.contains_key(*k)).count();
                        let lost = want.keys().filter(|k| !got3.contains_key(*k)).count();
                        return Err(("unusable_after_recovery".to_string(), format!("after a flush by the recovered index and a reload, {} entries are listed, {} were flushed ({ghosts} that were never committed, {lost} lost, the rest possibly changed)", got3.len(), want.len())));
                    }
                    Ok(all_new)
                })
            });
        }
        "residency" => {
            let path = work.join("key_state_v8");
            let mut db = ResidencyDb::new(path.clone());
            let mut model: BTreeMap<[u8; 16], bool> = BTreeMap::new();
            let mut burst = 0u32;
            let mut apply = |db: &mut ResidencyDb, model: &mut BTreeMap<[u8; 16], bool>, m: &M| match m {
                M::Mark { k, res } => {
                    if *res { db.mark_resident(&res_key(*k)) } else { db.mark_non_resident(&res_key(*k)) }
                    model.insert(res_key(*k), *res);
                }
                M::Span { k, off, len } => {
                    db.mark_span_non_resident(&res_key(*k), *off, *len);
                    model.insert(res_key(*k), false);
                }
                M::Burst { n } => {
                    for c in burst..burst + *n {
                        db.mark_resident(&res_burst_key(c));
                        model.insert(res_burst_key(c), true);
                    }
                    burst += *n;
                }
                _ => {}
            };
            if case.no_old {
                // nothing has ever been saved: S_old is "no file yet"
                ctx.count("first_ever_saves");
            } else {
                // make sure S_old exists on disk
                db.mark_resident(&res_key(100));
                model.insert(res_key(100), true);
                for m in &case.pre {
                    apply(&mut db, &mut model, m);
                }
                if let Err(e) = db.save() {
                    panic!("harness: establishing S_old failed: {e}");
                }
                if case.reloaded {
                    db = match ResidencyDb::load(&path) {
                        Ok(d) => d,
                        Err(e) => panic!("harness: loading S_old back failed: {e}"),
                    };
                    ctx.count("saves_by_a_reloaded_instance");
                }
            }
            let old = model.clone();
            base = Fs::snapshot(&work);
            for m in &case.post {
                apply(&mut db, &mut model, m);
            }
            if model == old {
                // the save under test must have something to write
                db.mark_resident(&res_key(150));
                model.insert(res_key(150), true);
            }
            seams::disk_record(true);
            let r = db.save();
            seams::disk_record(false);
            log = seams::disk_take_log();
            if let Err(e) = r {
                return Some(Violation::new("C06.save.ok", "save_failed", sig(case, "save_failed", "nofault"), format!("ResidencyDb::save failed without any injected fault: {e}")));
            }
            let new = model;
            recover = Box::new(move |img: &Path| {
                let (old, new) = (old.clone(), new.clone());
                let p = img.join("key_state_v8");
                Box::pin(async move {
                    let mut db = ResidencyDb::load(&p).map_err(|e| ("recover_failed".to_string(), format!("ResidencyDb::load failed: {e}")))?;
                    let keys: Vec<[u8; 16]> = new.keys().chain(old.keys()).copied().collect();
                    let got: BTreeMap<[u8; 16], bool> = keys.iter().map(|k| (*k, db.is_resident(k))).collect();
                    let view = |m: &BTreeMap<[u8; 16], bool>| -> BTreeMap<[u8; 16], bool> { keys.iter().map(|k| (*k, m.get(k).copied().unwrap_or(false))).collect() };
                    let is_new = got == view(&new);
                    if !is_new && got != view(&old) {
                        return Err(("mixed_state".to_string(), format!("after recovery the residency of {} keys matches neither S_old nor S_new", keys.len())));
                    }
                    // the enumeration must tell the same story as the per-key lookups (no phantom entries)
                    let mut scan = db.scan_keys();
                    scan.sort_unstable();
                    let want: Vec<[u8; 16]> = (if is_new { &new } else { &old }).iter().filter(|(_, r)| **r).map(|(k, _)| *k).collect();
                    if scan != want {
                        return Err(("mixed_state".to_string(), format!("after recovery scan_keys() yields {} keys although per-key lookups match S_{} with {} resident keys", scan.len(), if is_new { "new" } else { "old" }, want.len())));
                    }
                    let fresh = res_key(201);
                    db.mark_resident(&fresh);
                    db.save().map_err(|e| ("unusable_after_recovery".to_string(), format!("save on the recovered db failed: {e}")))?;
                    let db2 = ResidencyDb::load(&p).map_err(|e| ("unusable_after_recovery".to_string(), format!("load after a further save failed: {e}")))?;
                    if !db2.is_resident(&fresh) {
                        return Err(("unusable_after_recovery".to_string(), "a key marked and saved after recovery is not resident after the next load".to_string()));
                    }
                    // ... and the file written by that further save holds the recovered state plus the fresh key, nothing
                    // else: what an interrupted save left lying around (a longer temp file, say) must not leak into it
                    let mut scan2 = db2.scan_keys();
                    scan2.sort_unstable();
                    let mut want2 = want.clone();
                    want2.push(fresh);
                    want2.sort_unstable();
                    want2.dedup();
                    if scan2 != want2 {
                        let ghosts = scan2.iter().filter(|k| !want2.contains(k)).count();
                        let lost = want2.iter().filter(|k| !scan2.contains(k)).count();
                        return Err(("mixed_state_after_further_save".to_string(), format!("a further save + load on the recovered db (S_{}) yields {} keys, expected {}: {ghosts} keys that were never part of that state, {lost} missing", if is_new { "new" } else { "old" }, scan2.len(), want2.len())));
                    }
                    Ok(is_new)
                })
            });
        }
        "lru" => {
            let cap = case.cap.max(1);
            let mut lru = LruManager::new(cap, work.clone());
            let mut model: std::collections::VecDeque<[u8; 9]> = std::collections::VecDeque::new();
            let apply = |lru: &mut LruManager, model: &mut std::collections::VecDeque<[u8; 9]>, m: &M| match m {
                M::Touch { k } => {
                    let key = lru_key(*k);
                    lru.touch(&key);
                    if let Some(p) = model.iter().position(|x| *x == key) {
                        model.remove(p);
                    } else if model.len() >= cap as usize {
                        model.pop_front();
                    }
                    model.push_back(key);
                }
                M::Remove { k } => {
                    let key = lru_key(*k);
                    lru.remove(&key);
                    if let Some(p) = model.iter().position(|x| *x == key) {
                        model.remove(p);
                    }
                }
                M::Evict => {
                    lru.evict_tail();
                    model.pop_front();
                }
                _ => {}
            };
            if case.no_old {
                ctx.count("first_ever_saves");
            } else {
                apply(&mut lru, &mut model, &M::Touch { k: 9 });
                for m in &case.pre {
                    apply(&mut lru, &mut model, m);
                }
                if let Err(e) = lru.checkpoint_to_disk().await {
                    panic!("harness: establishing S_old failed: {e}");
                }
                if case.reloaded {
                    // a restart: a fresh manager that loads the latest checkpoint
                    lru = LruManager::new(cap, work.clone());
                    if let Err(e) = lru.run_cycle(0, 0).await {
                        panic!("harness: restarting on S_old failed: {e}");
                    }
                    ctx.count("saves_by_a_reloaded_instance");
                }
            }
            let old: Vec<[u8; 9]> = model.iter().copied().collect();
            base = Fs::snapshot(&work);
            for m in &case.post {
                apply(&mut lru, &mut model, m);
            }
            if case.no_old && model.is_empty() {
                apply(&mut lru, &mut model, &M::Touch { k: 3 });
            }
            seams::disk_record(true);
            let r = match case.save.as_str() {
                "checkpoint" => lru.checkpoint_to_disk().await,
                "shutdown" => lru.shutdown().await,
                _ => {
                    lru.bump_generation();
                    lru.checkpoint_to_disk().await
                }
            };
            seams::disk_record(false);
            log = seams::disk_take_log();
            if let Err(e) = r {
                return Some(Violation::new("C06.save.ok", "save_failed", sig(case, "save_failed", "nofault"), format!("the LRU save under test failed without any injected fault: {e}")));
            }
            let new: Vec<[u8; 9]> = model.iter().copied().collect();
            let rcap = if case.recover_cap > 0 { case.recover_cap } else { cap };
            recover = Box::new(move |img: &Path| {
                let (old, new) = (old.clone(), new.clone());
                let img = img.to_path_buf();
                Box::pin(async move {
                    let cap = rcap;
                    let mut l = LruManager::new(cap, img.clone());
                    l.run_cycle(0, 0).await.map_err(|e| ("recover_failed".to_string(), format!("run_cycle on the crash image failed: {e}")))?;
                    let mut got = Vec::new();
                    l.for_each_entry(|k| got.push(*k));
                    let is_new = got == new;
                    if !is_new && got != old {
                        return Err(("mixed_state".to_string(), format!("after recovery the tracker holds {} entries; S_old has {}, S_new has {} - the order equals neither", got.len(), old.len(), new.len())));
                    }
                    let fresh = lru_key(77);
                    l.touch(&fresh);
                    l.shutdown().await.map_err(|e| ("unusable_after_recovery".to_string(), format!("shutdown on the recovered tracker failed: {e}")))?;
                    let mut l2 = LruManager::new(cap, img);
                    l2.run_cycle(0, 0).await.map_err(|e| ("unusable_after_recovery".to_string(), format!("run_cycle after a further shutdown failed: {e}")))?;
                    if !l2.contains(&fresh) {
                        return Err(("unusable_after_recovery".to_string(), "a key touched and checkpointed after recovery is gone after the next start".to_string()));
                    }
                    Ok(is_new)
                })
            });
        }
        _ => {
            // disk cache entry
            let mk = |dir: &Path| DiskCache::<SimKey>::new(DiskCacheConfig::new(dir.to_path_buf()).with_subdirectories(case.cap % 2 == 0, 1));
            let cache = match mk(&work) {
                Ok(c) => c,
                Err(e) => panic!("harness: cannot create disk cache: {e}"),
            };
            let mut model: BTreeMap<usize, Vec<u8>> = BTreeMap::new();
            for (i, m) in case.pre.iter().enumerate() {
                if let M::Put { k, len } = m {
                    let v = super::payload(((i as u64 + 1) << 8) | *k as u64, *len);
                    if let Err(e) = cache.put(SimKey::n(*k), Bytes::from(v.clone())).await {
                        panic!("harness: pre-history put failed: {e}");
                    }
                    model.insert(*k, v);
                }
            }
            let cache = if case.reloaded {
                drop(cache);
                ctx.count("saves_by_a_reloaded_instance");
                match mk(&work) {
                    Ok(c) => c,
                    Err(e) => panic!("harness: cannot re-create the disk cache: {e}"),
                }
            } else {
                cache
            };
            let old = model.clone();
            base = Fs::snapshot(&work);
            let Some(M::Put { k, len }) = case.post.first() else { return None };
            let (k, len) = (*k, *len);
            let v_new = super::payload(0xFFFF_0000 | k as u64, len);
            seams::disk_record(true);
            let r = cache.put(SimKey::n(k), Bytes::from(v_new.clone())).await;
            seams::disk_record(false);
            log = seams::disk_take_log();
            if let Err(e) = r {
                return Some(Violation::new("C06.save.ok", "save_failed", sig(case, "save_failed", "nofault"), format!("DiskCache::put failed without any injected fault: {e}")));
            }
            drop(cache);
            let sub = case.cap % 2 == 0;
            recover = Box::new(move |img: &Path| {
                let (old, v_new) = (old.clone(), v_new.clone());
                let img = img.to_path_buf();
                Box::pin(async move {
                    let c = DiskCache::<SimKey>::new(DiskCacheConfig::new(img.clone()).with_subdirectories(sub, 1)).map_err(|e| ("recover_failed".to_string(), format!("opening a cache on the crash image failed: {e}")))?;
                    // a leftover temporary file is not an entry: the fresh instance's size() (a directory scan) counts
                    // what can be retrieved - the untouched keys plus the written key if it has a value
                    let reported = c.size().await.map_err(|e| ("recover_failed".to_string(), format!("size() on the crash image failed: {e}")))?;
                    // untouched keys keep their values
                    for (ok, ov) in &old {
                        if *ok == k {
                            continue;
                        }
                        match c.get(&SimKey::n(*ok)).await {
                            Ok(Some(b)) if b.as_ref() == ov.as_slice() => {}
                            other => return Err(("mixed_state".to_string(), format!("key k{ok}, which the interrupted put did not touch, reads back as {:?}", other.map(|o| o.map(|b| b.len())).map_err(|e| e.to_string())))),
                        }
                    }
                    let got = c.get(&SimKey::n(k)).await.map_err(|e| ("recover_failed".to_string(), format!("get of the key being written failed: {e}")))?;
                    let is_new = match (&got, old.get(&k)) {
                        (Some(b), _) if b.as_ref() == v_new.as_slice() => true,
                        (Some(b), Some(o)) if b.as_ref() == o.as_slice() => false,
                        (None, None) => false,
                        (g, o) => {
                            return Err((
                                "mixed_state".to_string(),
                                format!("key k{k} reads back as {:?} bytes; old value {:?} bytes, new value {} bytes - it is neither", g.as_ref().map(|b| b.len()), o.map(Vec::len), v_new.len()),
                            ));
                        }
                    };
                    let retrievable = old.keys().filter(|ok| **ok != k).count() + usize::from(got.is_some());
                    if reported != retrievable {
                        return Err(("mixed_state".to_string(), format!("a fresh cache on the crash image reports size() = {reported} but {retrievable} keys are retrievable (a leftover temporary file counted as an entry?)")));
                    }
                    // usable: a further put is served
                    let v3 = super::payload(0xABCD, 33);
                    c.put(SimKey::n(k), Bytes::from(v3.clone())).await.map_err(|e| ("unusable_after_recovery".to_string(), format!("put on the recovered cache failed: {e}")))?;
                    match c.get(&SimKey::n(k)).await {
                        Ok(Some(b)) if b.as_ref() == v3.as_slice() => {}
                        other => return Err(("unusable_after_recovery".to_string(), format!("a value put after recovery reads back as {:?}", other.map(|o| o.map(|b| b.len())).map_err(|e| e.to_string())))),
                    }
                    Ok(is_new)
                })
            });
        }
    }

    // ------------------------------------------------------------------ enumerate crash images
    for op in &log {
        ctx.obs(op.kind().as_bytes());
    }
    if ctx.tracing() {
        let descr: Vec<String> = log.iter().map(|o| o.describe(&work_s)).collect();
        ctx.event(|| json!({"k":"disk","log":descr}));
    }
    let points = fsmodel::enumerate(&work_s, &base, &log, &is_temp);
    let mut verdicts = Verdicts { old: 0, new: 0 };
    let mut seen_new = false;
    for (n, (cp, fs)) in points.iter().enumerate() {
        let img = ctx.root.join(format!("img{n}"));
        if let Err(e) = fs.materialise(&img, cp.tear) {
            panic!("harness: cannot materialise crash image: {e}");
        }
        ctx.count("evaluations");
        ctx.fault(if cp.model == "P" { if cp.partial.is_some() { "crash:P:inside_write" } else { "crash:P:between_calls" } } else { "crash:D:power_loss" });
        if let Some(t) = cp.tear {
            ctx.count(&format!("tear:{}", t.kind()));
        }
        let res = std::panic::AssertUnwindSafe(recover(&img));
        let res = futures::FutureExt::catch_unwind(res).await;
        let _ = std::fs::remove_dir_all(&img);
        let verdict = match res {
            Ok(v) => v,
            Err(_) => {
                let (loc, msg) = crate::framework::take_panic().unwrap_or_default();
                if !crate::framework::panic_in_sut(&loc) {
                    panic!("harness panic during recovery at {loc}: {msg}");
                }
                Err(("recover_panic".to_string(), format!("recovery panicked at {loc}: {msg}")))
            }
        };
        match verdict {
            Ok(is_new) => {
                ctx.obs(&[is_new as u8]);
                if is_new {
                    verdicts.new += 1;
                    seen_new = true;
                } else {
                    verdicts.old += 1;
                    // process-death images are a prefix order: once the new state was visible it stays
                    if seen_new && cp.model == "P" && cp.partial.is_none() {
                        ctx.count("old_after_new_under_P");
                    }
                }
                ctx.event(|| json!({"k":"crash","point":cp.label(&log),"verdict":if is_new {"new"} else {"old"}}));
            }
            Err((class, detail)) => {
                ctx.event(|| json!({"k":"crash","point":cp.label(&log),"verdict":class,"detail":detail}));
                let oracle = match class.as_str() {
                    "mixed_state" => "C06.state.old_or_new",
                    "unusable_after_recovery" => "C06.recovery.usable",
                    _ => "C06.recovery.ok",
                };
                return Some(Violation::new(oracle, &class, sig(case, &class, &cp.class(&log)), format!("crash point [{}] of {} recorded calls: {detail}", cp.label(&log), log.len())));
            }
        }
    }
    ctx.count_n("images_old", verdicts.old);
    ctx.count_n("images_new", verdicts.new);
    ctx.count_n("recorded_syscalls", log.len() as u64);
    ctx.state(Ctx::hash_of(format!("{}:{}:{}", case.obj, case.save, log.len()).as_bytes()));
    None
}

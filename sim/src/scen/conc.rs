//! C11 — concurrent cache and storage use is linearizable and keeps its books.

use super::SimKey;
use crate::framework::{shrink_vec, Ctx, Scenario, Tier, Violation};
use crate::prng::Rng;
use crate::sched::{self, Strategy};
use bytes::Bytes;
use cascette_cache::config::{DiskCacheConfig, MemoryCacheConfig};
use cascette_cache::traits::{AsyncCache, EvictionPolicy};
use cascette_cache::{DiskCache, MemoryCache};
use cascette_client_storage::container::dynamic::DynamicContainer;
use cascette_client_storage::container::{AccessMode, Container};
use cascette_client_storage::StorageError;
use cascette_crypto::EncodingKey;
use cascette_formats::blte::{BlteFile, CompressionMode};
use cascette_formats::CascFormat;
use serde::{Deserialize, Serialize};
use serde_json::json;
use std::collections::HashSet;
use std::sync::{Arc, Mutex};
use std::time::Duration;

pub struct Conc;

#[derive(Clone, Debug, Serialize, Deserialize, PartialEq)]
pub enum COp {
    Get(usize),
    Contains(usize),
    Put(usize),
    /// put_with_ttl(0): the entry is expired as soon as it is stored
    PutTtl0(usize),
    /// put_with_ttl(24 h)
    PutLong(usize),
    Remove(usize),
    Clear,
}
impl COp {
    fn kind(&self) -> &'static str {
        match self {
            COp::Get(_) => "get",
            COp::Contains(_) => "contains",
            COp::Put(_) => "put",
            COp::PutTtl0(_) => "put_ttl0",
            COp::PutLong(_) => "put_long",
            COp::Remove(_) => "remove",
            COp::Clear => "clear",
        }
    }
    fn key(&self) -> Option<usize> {
        match self {
            COp::Get(k) | COp::Contains(k) | COp::Put(k) | COp::PutTtl0(k) | COp::PutLong(k) | COp::Remove(k) => Some(*k),
            COp::Clear => None,
        }
    }
}

#[derive(Clone, Debug, Serialize, Deserialize)]
pub struct Case {
    /// "memory" | "disk" | "memory_evict"
    pub sut: String,
    pub nkeys: usize,
    /// executed sequentially before the tasks start
    pub setup: Vec<COp>,
    pub tasks: Vec<Vec<COp>>,
    /// "random" | "pct1" | "pct2" | "pct3"
    pub strategy: String,
    pub sched_seed: u64,
    /// explicit schedule (preference list of thread ids); overrides strategy/sched_seed
    #[serde(default)]
    pub schedule: Option<Vec<usize>>,
    /// every put of a key, whichever task issues it, writes the SAME bytes (several tasks caching the same
    /// object at once); otherwise every put writes bytes of its own
    #[serde(default)]
    pub same_value: bool,
    /// how the keys are spelled (see cache.rs: 0 = k<i>, 1-3 = dotted names equal up to the last dot / one a
    /// prefix of the other); disk: hashed sub-directories on or off
    #[serde(default)]
    pub key_style: u8,
    #[serde(default)]
    pub subdirs: bool,
    /// disk: the sequential setup is performed by an EARLIER cache instance on the same directory; the tasks share a
    /// new instance that has not indexed those files yet (its get / remove fall back to the file on disk)
    #[serde(default)]
    pub earlier_instance: bool,
}

#[derive(Clone, Debug, PartialEq)]
enum Res {
    Val(Option<u64>),
    /// bytes that are not exactly one written payload
    Torn(usize),
    Bool(bool),
    Unit,
    Err(String),
}

#[derive(Clone, Debug)]
struct HOp {
    tid: usize,
    inv: u64,
    ret: u64,
    op: COp,
    /// id of the value written by a put
    id: u64,
    res: Res,
}

#[derive(Clone, Copy, Debug, PartialEq, Eq, Hash)]
enum KS {
    Absent,
    Live(u64),
    Expired,
}

const VLEN: usize = 24;

fn value_of(id: u64) -> Vec<u8> {
    super::payload(id, VLEN + (id % 5) as usize)
}
fn id_of(bytes: &[u8]) -> Res {
    if bytes.len() >= 8 {
        let id = u64::from_le_bytes(bytes[..8].try_into().unwrap_or([0; 8]));
        if value_of(id).as_slice() == bytes {
            return Res::Val(Some(id));
        }
    }
    Res::Torn(bytes.len())
}

/// Which sequential specification applies.
#[derive(Clone, Copy, PartialEq)]
enum Mode {
    Mem,
    Disk,
    /// DynamicContainer: a set of keys with fixed content per key; write/remove return ()
    Container,
}

/// Sequential specification: apply `op`; returns whether `res` is what the spec allows.
fn spec_step(mode: Mode, st: &mut [KS], op: &COp, id: u64, res: &Res) -> bool {
    let disk = mode == Mode::Disk;
    if mode == Mode::Container {
        return match op {
            COp::Get(k) => match st[*k] {
                KS::Live(v) => *res == Res::Val(Some(v)),
                _ => *res == Res::Val(None),
            },
            COp::Contains(k) => *res == Res::Bool(matches!(st[*k], KS::Live(_))),
            COp::Put(k) | COp::PutLong(k) | COp::PutTtl0(k) => {
                st[*k] = KS::Live(*k as u64);
                *res == Res::Unit
            }
            COp::Remove(k) => {
                st[*k] = KS::Absent;
                *res == Res::Unit
            }
            COp::Clear => false,
        };
    }
    match op {
        COp::Get(k) => match st[*k] {
            KS::Live(v) => *res == Res::Val(Some(v)),
            // (whether a read physically collects the expired entry is not judged: the state stays "expired",
            // for which remove() may answer either way)
            KS::Expired => *res == Res::Val(None),
            KS::Absent => *res == Res::Val(None),
        },
        COp::Contains(k) => match st[*k] {
            KS::Live(_) => *res == Res::Bool(true),
            KS::Expired => {
                let _ = disk;
                *res == Res::Bool(false)
            }
            KS::Absent => *res == Res::Bool(false),
        },
        COp::Put(k) | COp::PutLong(k) => {
            st[*k] = KS::Live(id);
            *res == Res::Unit
        }
        COp::PutTtl0(k) => {
            st[*k] = KS::Expired;
            *res == Res::Unit
        }
        COp::Remove(k) => {
            let ok = match st[*k] {
                KS::Live(_) => *res == Res::Bool(true),
                KS::Expired => matches!(res, Res::Bool(_)),
                KS::Absent => *res == Res::Bool(false),
            };
            st[*k] = KS::Absent;
            ok
        }
        COp::Clear => {
            for s in st.iter_mut() {
                *s = KS::Absent;
            }
            *res == Res::Unit
        }
    }
}

/// Wing-Gong / Lowe style search for a linearization consistent with real-time order.
fn linearizable(disk: Mode, init: &[KS], h: &[HOp]) -> bool {
    let n = h.len();
    if n == 0 {
        return true;
    }
    let mut seen: HashSet<(u32, Vec<KS>)> = HashSet::new();
    fn dfs(disk: Mode, h: &[HOp], mask: u32, st: &[KS], seen: &mut HashSet<(u32, Vec<KS>)>) -> bool {
        let n = h.len();
        if mask == (1u32 << n) - 1 {
            return true;
        }
        if !seen.insert((mask, st.to_vec())) {
            return false;
        }
        for i in 0..n {
            if mask & (1 << i) != 0 {
                continue;
            }
            // every op that returned before i was invoked must already be linearized
            let ok = (0..n).all(|j| j == i || mask & (1 << j) != 0 || h[j].ret > h[i].inv);
            if !ok {
                continue;
            }
            let mut s2 = st.to_vec();
            if let Res::Err(_) = h[i].res {
                // a failed operation (it lost a race) may or may not have taken effect
                if dfs(disk, h, mask | (1 << i), st, seen) {
                    return true;
                }
                let ok_res = match h[i].op {
                    COp::Get(_) | COp::Contains(_) => None,
                    COp::Remove(_) if disk != Mode::Container => None,
                    _ => Some(Res::Unit),
                };
                if let Some(r) = ok_res {
                    if spec_step(disk, &mut s2, &h[i].op, h[i].id, &r) && dfs(disk, h, mask | (1 << i), &s2, seen) {
                        return true;
                    }
                }
                continue;
            }
            if spec_step(disk, &mut s2, &h[i].op, h[i].id, &h[i].res) && dfs(disk, h, mask | (1 << i), &s2, seen) {
                return true;
            }
        }
        false
    }
    dfs(disk, h, 0, init, &mut seen)
}

enum Sut {
    Mem(Arc<MemoryCache<SimKey>>),
    Disk(Arc<DiskCache<SimKey>>),
}
impl Sut {
    fn c(&self) -> Arc<dyn AsyncCache<SimKey>> {
        match self {
            Sut::Mem(m) => m.clone(),
            Sut::Disk(d) => d.clone(),
        }
    }
}

thread_local! {
    /// One current-thread tokio runtime per task thread: today the cache futures never suspend, but code
    /// that moved to tokio::fs / spawn_blocking would need a runtime to be polled on.
    static RT: tokio::runtime::Runtime = tokio::runtime::Builder::new_current_thread().enable_all().build().expect("tokio runtime");
}
fn block_on<F: std::future::Future>(f: F) -> F::Output {
    RT.with(|rt| rt.block_on(f))
}

fn do_op(c: &dyn AsyncCache<SimKey>, keys: &[SimKey], op: &COp, id: u64) -> Res {
    match op {
        COp::Get(k) => match block_on(c.get(&keys[*k])) {
            Ok(Some(b)) => id_of(&b),
            Ok(None) => Res::Val(None),
            Err(e) => Res::Err(e.to_string()),
        },
        COp::Contains(k) => match block_on(c.contains(&keys[*k])) {
            Ok(b) => Res::Bool(b),
            Err(e) => Res::Err(e.to_string()),
        },
        COp::Put(k) => match block_on(c.put(keys[*k].clone(), Bytes::from(value_of(id)))) {
            Ok(()) => Res::Unit,
            Err(e) => Res::Err(e.to_string()),
        },
        COp::PutTtl0(k) => match block_on(c.put_with_ttl(keys[*k].clone(), Bytes::from(value_of(id)), Duration::ZERO)) {
            Ok(()) => Res::Unit,
            Err(e) => Res::Err(e.to_string()),
        },
        COp::PutLong(k) => match block_on(c.put_with_ttl(keys[*k].clone(), Bytes::from(value_of(id)), Duration::from_secs(86_400))) {
            Ok(()) => Res::Unit,
            Err(e) => Res::Err(e.to_string()),
        },
        COp::Remove(k) => match block_on(c.remove(&keys[*k])) {
            Ok(b) => Res::Bool(b),
            Err(e) => Res::Err(e.to_string()),
        },
        COp::Clear => match block_on(c.clear()) {
            Ok(()) => Res::Unit,
            Err(e) => Res::Err(e.to_string()),
        },
    }
}

impl Scenario for Conc {
    type Case = Case;
    fn property(&self) -> &'static str {
        "C11"
    }
    fn name(&self) -> &'static str {
        "conc"
    }
    fn level(&self) -> &'static str {
        "exploration"
    }
    fn rule(&self) -> &'static str {
        "(One run in three spells its keys with dots - obj.<i>, versions-1.15.<i>, k<i> / k<i>.idx; the disk cache has hashed sub-directories in 30 % of the runs, and in a quarter of them the sequential setup was done by an EARLIER instance on the same directory (the shared instance has not indexed those files). One run in six: all puts of a key, whichever task issues them, write IDENTICAL bytes; otherwise every put writes bytes of its own.) Per run one shared MemoryCache or DiskCache, 2-3 tasks x 1-3 operations from {get, contains, put, put_with_ttl(0 = already expired), put_with_ttl(24h), remove, clear(memory only)} on 1-2 keys (every written value unique), optionally after a sequential setup that leaves an expired entry behind. Each task is a real OS thread; exactly one runs at a time and at every sched_point hook (between consecutive shared-state accesses: map get/remove/insert, counter updates, temp-file open/write/fsync/rename, index update) a seeded chooser (uniform random or PCT with 1-3 priority change points) decides who runs next. Invocations and responses are stamped with a global sequence number; a Wing-Gong/Lowe search looks for a linearization accepted by the sequential cache specification; any Err is a violation; at quiescence size()/usage must equal what a probe of every key retrieves. A third arm (tiny max_entries) exercises the eviction loops and checks values, errors and accounting only. A fourth arm shares one DynamicContainer (feature verif-hooks: its RwLocks become try-lock + yield-to-scheduler, so threads can be preempted inside save_all while holding the index lock): 2-3 tasks x 1-2 operations from {write, read, query, remove} on 1-2 encoding keys, preempted between archive write / index add / save and between create / write / fsync / rename of every index temp file; oracle: no panic, no deadlock (all unfinished tasks waiting for a lock), no error for an operation that did not overlap a mutator of the same key, reads return exactly the content written, the history extended by a sequential query+read of every key at quiescence is linearizable against a set specification, and a fresh container opened on the same directory answers exactly as the live one. Non-trivial = >= 2 state-changing ops and >= 1 context switch at a hook site; distinct = hash of (case, schedule, results)."
    }
    fn assumptions(&self) -> Vec<&'static str> {
        vec![
            "interleavings are explored at the granularity of the hook sites under sequential consistency; races inside a DashMap operation, inside a std lock region, and weak-memory effects of the Relaxed counters are not explored",
            "the return value of remove() on a physically present but expired entry is not judged",
            "an Err is tolerated only for an operation that overlapped a conflicting mutator (same key, or clear): e.g. a disk put whose temp file a concurrent clear swept away",
        ]
    }
    fn components(&self) -> Vec<(&'static str, &'static str)> {
        vec![
            ("MemoryCache / DiskCache operations incl. eviction loops and temp-file protocol", "real (feature verif-hooks: sched_point calls compiled in)"),
            ("DynamicContainer read/write/remove/query, ArchiveManager, IndexManager::save_all temp-file protocol", "real (feature verif-hooks: sched_point calls compiled in; parking_lot::RwLock behind a try-lock wrapper that yields to the scheduler instead of sleeping)"),
            ("OS thread scheduling", "simulated (baton controller: one runnable thread, seeded choice at every hook site)"),
            ("clock / entropy", "simulated (interposed; 1 ns tick per read keeps timestamps strictly ordered)"),
            ("async executor", "futures::executor::block_on per task (the cache futures never suspend)"),
        ]
    }
    fn runs(&self, tier: Tier) -> u64 {
        match tier {
            Tier::Quick => 120_000,
            Tier::Thorough => 3_000_000,
        }
    }

    fn generate(&self, rng: &mut Rng, _tier: Tier) -> Case {
        let sut = *rng.pick(&["memory", "memory", "disk", "disk", "memory_evict", "container", "container"]);
        let evict = sut == "memory_evict";
        let nkeys = if evict { rng.range(3, 4) as usize } else { rng.range(1, 2) as usize };
        let ntasks = rng.range(2, 3) as usize;
        let disk = sut == "disk";
        let container = sut == "container";
        let gen_op = |rng: &mut Rng, disk: bool| -> COp {
            let k = rng.usize_below(nkeys);
            if container {
                return match rng.below(100) {
                    0..=24 => COp::Get(k),
                    25..=34 => COp::Contains(k),
                    35..=74 => COp::Put(k),
                    _ => COp::Remove(k),
                };
            }
            match rng.below(100) {
                0..=27 => COp::Get(k),
                28..=35 => COp::Contains(k),
                36..=60 => COp::Put(k),
                61..=72 => {
                    // on disk an entry that expires at once is only used as a precondition (setup): the
                    // un-indexed-file fallback legitimately serves a file without knowing its TTL (C10-F5)
                    if disk { COp::Put(k) } else { COp::PutTtl0(k) }
                }
                73..=79 => COp::PutLong(k),
                80..=93 => COp::Remove(k),
                _ => COp::Clear,
            }
        };
        let setup: Vec<COp> = match rng.below(10) {
            0..=3 => vec![],
            _ if container => vec![COp::Put(rng.usize_below(nkeys))],
            4..=6 => vec![COp::PutTtl0(rng.usize_below(nkeys))],
            7..=8 => vec![COp::Put(rng.usize_below(nkeys))],
            _ => vec![COp::Put(rng.usize_below(nkeys)), COp::PutTtl0(rng.usize_below(nkeys))],
        };
        let mut tasks = Vec::new();
        let mut total = 0;
        for _ in 0..ntasks {
            let n = rng.range(1, if container { 2 } else { 3 }) as usize;
            let n = n.min(9 - total).max(1);
            total += n;
            tasks.push((0..n).map(|_| gen_op(rng, disk)).collect());
        }
        let strategy = (*rng.pick(&["random", "random", "pct1", "pct2", "pct3"])).to_string();
        let sched_seed = rng.next_u64();
        // drawn last: one run in six lets all puts of a key carry identical bytes
        let same_value = rng.chance(1, 6);
        let key_style = if rng.chance(1, 3) { rng.range(1, 3) as u8 } else { 0 };
        let subdirs = rng.chance(3, 10);
        let earlier_instance = sut == "disk" && rng.chance(1, 4);
        Case { sut: sut.to_string(), nkeys, setup, tasks, strategy, sched_seed, schedule: None, same_value, key_style, subdirs, earlier_instance }
    }

    fn execute(&self, case: &Case, ctx: &mut Ctx) -> Option<Violation> {
        run(case, ctx)
    }

    fn shrink(&self, case: &Case) -> Vec<Case> {
        let mut out = Vec::new();
        // drop a whole task (thread ids in the schedule shift: remap)
        if case.tasks.len() > 2 {
            for t in 0..case.tasks.len() {
                let mut tasks = case.tasks.clone();
                tasks.remove(t);
                let schedule = case.schedule.as_ref().map(|s| s.iter().filter(|x| **x != t).map(|x| if *x > t { x - 1 } else { *x }).collect());
                out.push(Case { tasks, schedule, ..case.clone() });
            }
        }
        for (t, ops) in case.tasks.iter().enumerate() {
            if ops.len() > 1 {
                for o in shrink_vec(ops) {
                    if !o.is_empty() {
                        let mut tasks = case.tasks.clone();
                        tasks[t] = o;
                        out.push(Case { tasks, ..case.clone() });
                    }
                }
            }
        }
        for s in shrink_vec(&case.setup) {
            out.push(Case { setup: s, ..case.clone() });
        }
        // fewer preemptions: replace a decision by "stay on the previous thread", or drop the tail
        if let Some(s) = &case.schedule {
            for i in (1..s.len()).rev() {
                if s[i] != s[i - 1] {
                    let mut s2 = s.clone();
                    s2[i] = s2[i - 1];
                    out.push(Case { schedule: Some(s2), ..case.clone() });
                }
            }
            if s.len() > 1 {
                out.push(Case { schedule: Some(s[..s.len() / 2].to_vec()), ..case.clone() });
                out.push(Case { schedule: Some(s[..s.len() - 1].to_vec()), ..case.clone() });
            }
        }
        if case.nkeys > 1 && case.tasks.iter().flatten().chain(case.setup.iter()).all(|o| o.key().is_none_or(|k| k == 0)) {
            out.push(Case { nkeys: 1, ..case.clone() });
        }
        if case.same_value {
            out.push(Case { same_value: false, ..case.clone() });
        }
        out
    }
}

fn run(case: &Case, ctx: &mut Ctx) -> Option<Violation> {
    let nk = case.nkeys.max(1);
    let keys: Vec<SimKey> = (0..nk).map(|i| super::cache::key_name(case.key_style, i)).collect();
    if case.sut == "container" {
        return run_container(case, ctx);
    }
    let evict = case.sut == "memory_evict";
    let disk = case.sut == "disk";
    let mode = if disk { Mode::Disk } else { Mode::Mem };
    let mut sut = if disk {
        let cfg = DiskCacheConfig::new(ctx.root.join("cache")).with_subdirectories(case.subdirs, 1);
        match DiskCache::<SimKey>::new(cfg) {
            Ok(c) => Sut::Disk(Arc::new(c)),
            Err(e) => panic!("harness: disk cache: {e}"),
        }
    } else {
        let policy = if evict {
            match case.sched_seed % 5 {
                0 => EvictionPolicy::Lru,
                1 => EvictionPolicy::Fifo,
                2 => EvictionPolicy::Lfu,
                3 => EvictionPolicy::Random,
                _ => EvictionPolicy::Ttl,
            }
        } else {
            EvictionPolicy::Lru
        };
        let mut cfg = MemoryCacheConfig::new().with_max_entries(if evict { 2 } else { 1000 }).with_eviction_policy(policy);
        // in the eviction arm one run in three is limited by bytes rather than by entries (make_room_for)
        cfg.max_memory_bytes = if evict && (case.sched_seed / 5) % 3 == 0 { Some(2 * VLEN + 6) } else { None };
        match MemoryCache::<SimKey>::new(cfg) {
            Ok(c) => Sut::Mem(Arc::new(c)),
            Err(e) => panic!("harness: memory cache: {e}"),
        }
    };
    ctx.obs(serde_json::to_string(&(&case.sut, &case.setup, &case.tasks)).unwrap_or_default().as_bytes());
    let norm = |op: &COp| -> COp {
        match op {
            COp::Get(k) => COp::Get(k % nk),
            // (contains() answers from the in-memory index alone: for a file an EARLIER instance left it says false
            // until a get has indexed it - the in-memory-index limitation recorded as C10-F5 / C10-F8, sequential and
            // not a race: with an earlier instance the tasks read with get)
            COp::Contains(k) if case.earlier_instance => COp::Get(k % nk),
            COp::Contains(k) => COp::Contains(k % nk),
            COp::Put(k) => COp::Put(k % nk),
            COp::PutTtl0(k) => COp::PutTtl0(k % nk),
            COp::PutLong(k) => COp::PutLong(k % nk),
            COp::Remove(k) => COp::Remove(k % nk),
            COp::Clear => COp::Clear,
        }
    };

    // ---- sequential setup ----
    let c = sut.c();
    let mut init = vec![KS::Absent; nk];
    for (i, op) in case.setup.iter().enumerate() {
        let op = norm(op);
        // (an entry that expires in the EARLIER instance has no expiry in the new one - C10-F5, not a race: with an
        // earlier instance the setup leaves no expired entry behind)
        if case.earlier_instance && matches!(op, COp::PutTtl0(_)) {
            continue;
        }
        let id = 0x5E70_0000 + i as u64;
        let res = do_op(c.as_ref(), &keys, &op, id);
        if let Res::Err(e) = &res {
            panic!("harness: setup op failed: {e}");
        }
        if !spec_step(mode, &mut init, &op, id, &res) {
            return Some(Violation::new("C11.sequential", "sequential_mismatch", format!("C11/{}/sequential_mismatch", case.sut), format!("setup op #{i} {op:?} returned {res:?}, which the sequential specification does not allow")));
        }
    }

    drop(c);
    if disk && case.earlier_instance {
        let cfg = DiskCacheConfig::new(ctx.root.join("cache")).with_subdirectories(case.subdirs, 1);
        sut = match DiskCache::<SimKey>::new(cfg) {
            Ok(c) => Sut::Disk(Arc::new(c)),
            Err(e) => panic!("harness: disk cache (second instance): {e}"),
        };
        ctx.count("runs_on_a_directory_filled_by_an_earlier_instance");
    }

    // ---- concurrent tasks under the scheduler ----
    let history: Arc<Mutex<Vec<HOp>>> = Arc::new(Mutex::new(Vec::new()));
    let mut tasks: Vec<Box<dyn FnOnce(&Arc<sched::Inner>) + Send>> = Vec::new();
    for (tid, ops) in case.tasks.iter().enumerate() {
        let ops: Vec<COp> = ops.iter().map(&norm).collect();
        let c = sut.c();
        let keys = keys.clone();
        let hist = history.clone();
        let same_value = case.same_value;
        tasks.push(Box::new(move |inner: &Arc<sched::Inner>| {
            for (j, op) in ops.iter().enumerate() {
                let id = match (same_value, op.key()) {
                    (true, Some(k)) if matches!(op, COp::Put(_) | COp::PutLong(_) | COp::PutTtl0(_)) => 0x5A3E_0000 + k as u64,
                    _ => ((tid as u64 + 1) << 8) | (j as u64 + 1),
                };
                let inv = inner.stamp();
                let res = do_op(c.as_ref(), &keys, op, id);
                let ret = inner.stamp();
                hist.lock().unwrap_or_else(std::sync::PoisonError::into_inner).push(HOp { tid, inv, ret, op: op.clone(), id, res });
            }
        }));
    }
    let strategy = match (&case.schedule, case.strategy.as_str()) {
        (Some(s), _) => Strategy::Explicit(s.clone()),
        (None, "pct1") => Strategy::Pct { d: 1, span: 12 },
        (None, "pct2") => Strategy::Pct { d: 2, span: 16 },
        (None, "pct3") => Strategy::Pct { d: 3, span: 24 },
        _ => Strategy::Random,
    };
    let mut srng = Rng::new(case.sched_seed);
    let install = |h: Option<Arc<sched::Hook>>| {
        cascette_cache::verif_hooks::install_controller(h.map(|x| x as Arc<dyn cascette_cache::verif_hooks::SchedController>));
    };
    let rr = sched::run(tasks, &strategy, &mut srng, &install);
    let mut h: Vec<HOp> = history.lock().unwrap_or_else(std::sync::PoisonError::into_inner).clone();
    h.sort_by_key(|o| o.inv);

    // ---- record ----
    let sched_ids: Vec<usize> = rr.schedule.iter().map(|(t, _)| *t).collect();
    let mut switches: Vec<&'static str> = Vec::new();
    for w in rr.schedule.windows(2) {
        if w[0].0 != w[1].0 && w[1].1 != "start" {
            switches.push(w[1].1);
        }
    }
    // sites at which the thread that was running got preempted (it parked there and another ran)
    let mut preempt_sites: Vec<&'static str> = Vec::new();
    for (i, (t, _)) in rr.schedule.iter().enumerate() {
        // where did thread t park after this slice? = the site of its next appearance
        if let Some((_, site)) = rr.schedule[i + 1..].iter().find(|(t2, _)| t2 == t) {
            if rr.schedule.get(i + 1).is_some_and(|(t2, _)| t2 != t) {
                preempt_sites.push(site);
            }
        }
    }
    preempt_sites.sort_unstable();
    preempt_sites.dedup();
    for (t, s) in &rr.schedule {
        ctx.obs(&[*t as u8]);
        ctx.obs(s.as_bytes());
    }
    for o in &h {
        ctx.obs(format!("{:?}", o.res).as_bytes());
    }
    ctx.event(|| json!({"k":"sched","strategy":case.strategy,"decisions":rr.schedule.iter().map(|(t,s)| format!("T{t}@{s}")).collect::<Vec<_>>()}));
    for o in &h {
        ctx.event(|| json!({"k":"op","task":o.tid,"inv":o.inv,"ret":o.ret,"op":format!("{:?}", o.op),"value_id":o.id,"res":format!("{:?}", o.res)}));
    }
    ctx.mutations = h.iter().filter(|o| !matches!(o.op, COp::Get(_) | COp::Contains(_))).count() as u32 + case.setup.len() as u32;
    ctx.needs_fault = true;
    ctx.faults = preempt_sites.len() as u32;
    ctx.count_n("fault:preemption_at_hook_site", preempt_sites.len() as u64);
    ctx.count_n("sched_points", rr.points);
    ctx.count_n("context_switches_at_hook_sites", switches.len() as u64);
    for s in &preempt_sites {
        ctx.count(&format!("preempted_at:{s}"));
    }
    ctx.state(Ctx::hash_of(format!("{sched_ids:?}").as_bytes()));

    let kinds = {
        let mut k: Vec<&str> = h.iter().map(|o| o.op.kind()).collect();
        k.sort_unstable();
        k.dedup();
        k.join("+")
    };
    let patch = json!({"schedule": sched_ids});
    // coarse signature (stable across schedules); the minimised replay's detail names ops and sites
    let sig = |class: &str| format!("C11/{}/{}", case.sut, class);
    let _ = &kinds;
    let hist_txt = || h.iter().map(|o| format!("T{}[{}..{}] {:?}{} -> {:?}", o.tid, o.inv, o.ret, o.op, if matches!(o.op, COp::Put(_) | COp::PutTtl0(_) | COp::PutLong(_)) { format!("(v{:x})", o.id) } else { String::new() }, o.res)).collect::<Vec<_>>().join("; ");

    if let Some((tid, msg)) = rr.panics.first() {
        return Some(Violation::new("C11.no_panic", "panic", sig("panic"), format!("task {tid} panicked: {msg}; preempted at [{}]; history: {}", preempt_sites.join(", "), hist_txt())).with_patch(patch));
    }
    // ---- an operation that loses no race does not fail ----
    // (an operation overlapping a mutating operation of another task on the same key did race)
    let raced = |o: &HOp| h.iter().any(|p| p.tid != o.tid && p.inv < o.ret && o.inv < p.ret && !matches!(p.op, COp::Get(_) | COp::Contains(_)) && (p.op.key() == o.op.key() || p.op.key().is_none() || o.op.key().is_none()));
    for o in h.iter().filter(|o| matches!(o.res, Res::Err(_))) {
        if raced(o) {
            ctx.count("errors_of_operations_that_lost_a_race");
        }
    }
    if let Some(o) = h.iter().find(|o| matches!(o.res, Res::Err(_)) && !raced(o)) {
        return Some(Violation::new("C11.no_spurious_error", "op_error", sig("op_error"), format!("task {} {:?} failed although no mutating operation of another task on that key overlaps it: {:?}; preempted at [{}]; history: {}", o.tid, o.op, o.res, preempt_sites.join(", "), hist_txt())).with_patch(patch));
    }
    // ---- a get returns a value that some put actually wrote ----
    if let Some(o) = h.iter().find(|o| matches!(o.res, Res::Torn(_))) {
        return Some(Violation::new("C11.no_torn_value", "torn_value", sig("torn_value"), format!("task {} {:?} returned bytes that are not exactly one written value: {:?}; history: {}", o.tid, o.op, o.res, hist_txt())).with_patch(patch));
    }
    for o in &h {
        if let (COp::Get(k), Res::Val(Some(id))) = (&o.op, &o.res) {
            let written = h.iter().any(|w| w.id == *id && w.op.key() == Some(*k) && matches!(w.op, COp::Put(_) | COp::PutLong(_) | COp::PutTtl0(_))) || *id >= 0x5E70_0000;
            if !written {
                return Some(Violation::new("C11.no_torn_value", "foreign_value", sig("foreign_value"), format!("task {} get(k{k}) returned value v{id:x}, which no put for that key wrote; history: {}", o.tid, hist_txt())).with_patch(patch));
            }
        }
    }
    // ---- linearizability ----
    if !evict && !linearizable(mode, &init, &h) {
        return Some(Violation::new("C11.linearizable", "not_linearizable", sig("not_linearizable"), format!("no sequential order consistent with real-time order explains the results (initial state {init:?}); preempted at [{}]; history: {}", preempt_sites.join(", "), hist_txt())).with_patch(patch));
    }
    // ---- books balanced at quiescence ----
    let c = sut.c();
    let mut count = 0usize;
    let mut bytes = 0usize;
    for k in &keys {
        if let Ok(Some(b)) = block_on(c.get(k)) {
            count += 1;
            bytes += b.len();
        }
    }
    let size = block_on(c.size()).unwrap_or(usize::MAX);
    let used = block_on(c.stats()).map(|s| s.memory_usage_bytes).unwrap_or(usize::MAX);
    ctx.event(|| json!({"k":"check","at":"quiescence","size":size,"usage":used,"retrievable":count,"retrievable_bytes":bytes}));
    if size != count {
        return Some(Violation::new("C11.books.size", "size_mismatch", sig("size_mismatch"), format!("after all tasks finished size()={size} but {count} entries are retrievable; preempted at [{}]; history: {}", preempt_sites.join(", "), hist_txt())).with_patch(patch));
    }
    if used != bytes {
        return Some(Violation::new("C11.books.usage", "usage_mismatch", sig("usage_mismatch"), format!("after all tasks finished the usage figure is {used} bytes but the retrievable values total {bytes} bytes; history: {}", hist_txt())).with_patch(patch));
    }
    None
}


// =========================================================================================
// DynamicContainer arm: concurrent write / read / query / remove on one local container
// =========================================================================================

fn container_content(k: usize) -> Vec<u8> {
    super::payload(0xC0_0000 + k as u64, 40 + 13 * k)
}

fn open_container(dir: &std::path::Path) -> Result<DynamicContainer, String> {
    let c = DynamicContainer::new(AccessMode::ReadWrite, dir.to_path_buf(), false, 0x3FF, 0x4000_0000, false).map_err(|e| e.to_string())?;
    super::paused_runtime().block_on(c.open()).map_err(|e| e.to_string())?;
    Ok(c)
}

fn do_cop(c: &DynamicContainer, ekeys: &[[u8; 16]], contents: &[Vec<u8>], op: &COp) -> Res {
    match op {
        COp::Get(k) => {
            let mut buf = vec![0u8; contents[*k].len() + 64];
            match block_on(c.read(&ekeys[*k], 0, 0, &mut buf)) {
                Ok(n) => {
                    if buf[..n] == contents[*k][..] {
                        Res::Val(Some(*k as u64))
                    } else {
                        Res::Torn(n)
                    }
                }
                Err(StorageError::NotFound(_)) => Res::Val(None),
                Err(e) => Res::Err(e.to_string()),
            }
        }
        COp::Contains(k) => match block_on(c.query(&ekeys[*k])) {
            Ok(b) => Res::Bool(b),
            Err(e) => Res::Err(e.to_string()),
        },
        COp::Put(k) | COp::PutLong(k) | COp::PutTtl0(k) => match block_on(c.write(&ekeys[*k], &contents[*k])) {
            Ok(()) => Res::Unit,
            Err(e) => Res::Err(e.to_string()),
        },
        COp::Remove(k) => match block_on(c.remove(&ekeys[*k])) {
            Ok(()) => Res::Unit,
            Err(e) => Res::Err(e.to_string()),
        },
        COp::Clear => Res::Unit,
    }
}

fn run_container(case: &Case, ctx: &mut Ctx) -> Option<Violation> {
    let nk = case.nkeys.clamp(1, 2);
    let contents: Vec<Vec<u8>> = (0..nk).map(container_content).collect();
    let ekeys: Vec<[u8; 16]> = contents
        .iter()
        .map(|d| {
            let blte = BlteFile::single_chunk(d.clone(), CompressionMode::None).ok().and_then(|b| b.build().ok()).unwrap_or_else(|| panic!("harness: BLTE encoding failed"));
            *EncodingKey::from_data(&blte).as_bytes()
        })
        .collect();
    let dir = ctx.root.join("store");
    let c = match open_container(&dir) {
        Ok(c) => Arc::new(c),
        Err(e) => panic!("harness: container: {e}"),
    };
    ctx.obs(serde_json::to_string(&(&case.sut, &case.setup, &case.tasks)).unwrap_or_default().as_bytes());
    let norm = |op: &COp| -> COp {
        match op {
            COp::Get(k) => COp::Get(k % nk),
            COp::Contains(k) => COp::Contains(k % nk),
            COp::Put(k) | COp::PutTtl0(k) | COp::PutLong(k) => COp::Put(k % nk),
            COp::Remove(k) => COp::Remove(k % nk),
            COp::Clear => COp::Get(0),
        }
    };
    let sig = |class: &str| format!("C11/container/{class}");

    // ---- sequential setup ----
    let mut init = vec![KS::Absent; nk];
    for (i, op) in case.setup.iter().enumerate() {
        let op = norm(op);
        let res = do_cop(&c, &ekeys, &contents, &op);
        if let Res::Err(e) = &res {
            return Some(Violation::new("C11.sequential", "sequential_error", sig("sequential_error"), format!("setup op #{i} {op:?} failed with no other task running: {e}")));
        }
        if !spec_step(Mode::Container, &mut init, &op, 0, &res) {
            return Some(Violation::new("C11.sequential", "sequential_mismatch", sig("sequential_mismatch"), format!("setup op #{i} {op:?} returned {res:?}, which the sequential specification does not allow")));
        }
    }

    // ---- concurrent tasks under the scheduler ----
    let history: Arc<Mutex<Vec<HOp>>> = Arc::new(Mutex::new(Vec::new()));
    let mut tasks: Vec<Box<dyn FnOnce(&Arc<sched::Inner>) + Send>> = Vec::new();
    for (tid, ops) in case.tasks.iter().enumerate() {
        let ops: Vec<COp> = ops.iter().map(&norm).collect();
        let c = c.clone();
        let ekeys = ekeys.clone();
        let contents = contents.clone();
        let hist = history.clone();
        tasks.push(Box::new(move |inner: &Arc<sched::Inner>| {
            for (j, op) in ops.iter().enumerate() {
                let id = ((tid as u64 + 1) << 8) | (j as u64 + 1);
                let inv = inner.stamp();
                let res = do_cop(&c, &ekeys, &contents, op);
                let ret = inner.stamp();
                hist.lock().unwrap_or_else(std::sync::PoisonError::into_inner).push(HOp { tid, inv, ret, op: op.clone(), id, res });
            }
        }));
    }
    let strategy = match (&case.schedule, case.strategy.as_str()) {
        (Some(s), _) => Strategy::Explicit(s.clone()),
        (None, "pct1") => Strategy::Pct { d: 1, span: 120 },
        (None, "pct2") => Strategy::Pct { d: 2, span: 160 },
        (None, "pct3") => Strategy::Pct { d: 3, span: 240 },
        _ => Strategy::Random,
    };
    let mut srng = Rng::new(case.sched_seed);
    let install = |h: Option<Arc<sched::Hook>>| {
        cascette_client_storage::verif_hooks::install_controller(h.map(|x| x as Arc<dyn cascette_client_storage::verif_hooks::SchedController>));
    };
    let rr = sched::run(tasks, &strategy, &mut srng, &install);
    let mut h: Vec<HOp> = history.lock().unwrap_or_else(std::sync::PoisonError::into_inner).clone();
    h.sort_by_key(|o| o.inv);
    let concurrent_ops = h.len();

    // ---- record ----
    let sched_ids: Vec<usize> = rr.schedule.iter().map(|(t, _)| *t).collect();
    let mut preempt_sites: Vec<&'static str> = Vec::new();
    let mut switches = 0u64;
    for (i, (t, _)) in rr.schedule.iter().enumerate() {
        if let Some((_, site)) = rr.schedule[i + 1..].iter().find(|(t2, _)| t2 == t) {
            if rr.schedule.get(i + 1).is_some_and(|(t2, _)| t2 != t) {
                preempt_sites.push(site);
                switches += 1;
            }
        }
    }
    preempt_sites.sort_unstable();
    preempt_sites.dedup();
    for (t, s) in &rr.schedule {
        ctx.obs(&[*t as u8]);
        ctx.obs(s.as_bytes());
    }
    for o in &h {
        ctx.obs(format!("{:?}", o.res).as_bytes());
    }
    ctx.event(|| json!({"k":"sched","strategy":case.strategy,"decisions":rr.schedule.len(),"lock_waits":rr.lock_waits,"preempted_at":preempt_sites}));
    for o in &h {
        ctx.event(|| json!({"k":"op","task":o.tid,"inv":o.inv,"ret":o.ret,"op":format!("{:?}", o.op),"res":format!("{:?}", o.res)}));
    }
    ctx.mutations = h.iter().filter(|o| !matches!(o.op, COp::Get(_) | COp::Contains(_))).count() as u32 + case.setup.len() as u32;
    ctx.needs_fault = true;
    ctx.faults = preempt_sites.len() as u32;
    ctx.count_n("fault:preemption_at_hook_site", preempt_sites.len() as u64);
    ctx.count_n("sched_points", rr.points);
    ctx.count_n("context_switches_at_hook_sites", switches);
    ctx.count_n("lock_waits", rr.lock_waits);
    ctx.count_n("fault:lock_contention_while_holder_preempted", u64::from(rr.lock_waits > 0));
    if rr.lock_waits > 0 {
        ctx.reached("container_lock_contended");
    }
    for s in &preempt_sites {
        ctx.count(&format!("preempted_at:{s}"));
    }
    ctx.state(Ctx::hash_of(format!("{sched_ids:?}").as_bytes()));
    let patch = json!({"schedule": sched_ids});
    let hist_txt = |h: &[HOp]| h.iter().map(|o| format!("T{}[{}..{}] {:?} -> {:?}", o.tid, o.inv, o.ret, o.op, o.res)).collect::<Vec<_>>().join("; ");

    if let Some((tid, msg)) = rr.panics.first() {
        let class = if msg.contains("deadlock:") { "deadlock" } else { "panic" };
        return Some(Violation::new("C11.no_panic", class, sig(class), format!("task {tid}: {msg}; preempted at [{}]; history: {}", preempt_sites.join(", "), hist_txt(&h))).with_patch(patch));
    }
    // an operation that loses no race does not fail (a race = overlap with a mutator of the same key)
    let raced = |o: &HOp| h.iter().any(|p| p.tid != o.tid && p.inv < o.ret && o.inv < p.ret && !matches!(p.op, COp::Get(_) | COp::Contains(_)) && p.op.key() == o.op.key());
    if let Some(o) = h.iter().find(|o| matches!(o.res, Res::Err(_)) && !raced(o)) {
        return Some(Violation::new("C11.no_spurious_error", "op_error", sig("op_error"), format!("task {} {:?} failed although no mutating operation of another task on that key overlaps it: {:?}; preempted at [{}]; history: {}", o.tid, o.op, o.res, preempt_sites.join(", "), hist_txt(&h))).with_patch(patch));
    }
    if let Some(o) = h.iter().find(|o| matches!(o.res, Res::Torn(_))) {
        return Some(Violation::new("C11.no_torn_value", "torn_value", sig("torn_value"), format!("task {} {:?} returned bytes that are not the content written under that key: {:?}; history: {}", o.tid, o.op, o.res, hist_txt(&h))).with_patch(patch));
    }

    // ---- final state, observed sequentially on the live container: part of the history ----
    let mut stamp = h.iter().map(|o| o.ret).max().unwrap_or(0) + 1;
    let mut live_answers = Vec::new();
    for k in 0..nk {
        for op in [COp::Contains(k), COp::Get(k)] {
            let res = do_cop(&c, &ekeys, &contents, &op);
            live_answers.push((op.clone(), res.clone()));
            h.push(HOp { tid: 99, inv: stamp, ret: stamp + 1, op, id: 0, res });
            stamp += 2;
        }
    }
    if let Some(o) = h[concurrent_ops..].iter().find(|o| matches!(o.res, Res::Err(_) | Res::Torn(_))) {
        return Some(Violation::new("C11.quiescent_read", "quiescent_read_failed", sig("quiescent_read_failed"), format!("after all tasks finished {:?} returned {:?}; history: {}", o.op, o.res, hist_txt(&h))).with_patch(patch));
    }
    if !linearizable(Mode::Container, &init, &h) {
        return Some(Violation::new("C11.linearizable", "not_linearizable", sig("not_linearizable"), format!("no sequential order consistent with real-time order explains the results and the final state (initial state {init:?}); preempted at [{}]; history: {}", preempt_sites.join(", "), hist_txt(&h))).with_patch(patch));
    }
    // ---- what a fresh instance on the same directory resolves = what the live one answers ----
    drop(c);
    let fresh = match open_container(&dir) {
        Ok(f) => f,
        Err(e) => {
            return Some(Violation::new("C11.reopen", "reopen_failed", sig("reopen_failed"), format!("a fresh container on the directory the tasks used fails to open: {e}; history: {}", hist_txt(&h))).with_patch(patch));
        }
    };
    for (op, live) in &live_answers {
        let res = do_cop(&fresh, &ekeys, &contents, op);
        if &res != live {
            return Some(Violation::new("C11.books.durable", "durable_mismatch", sig("durable_mismatch"), format!("after all tasks finished the live container answers {op:?} -> {live:?} but a fresh instance on the same directory answers {res:?}; preempted at [{}]; history: {}", preempt_sites.join(", "), hist_txt(&h))).with_patch(patch));
        }
    }
    None
}

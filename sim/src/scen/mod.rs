//! Scenarios: one module per property.

use crate::framework::{DynScenario, Erased};
use std::sync::Arc;

pub mod lru;

pub fn all() -> Vec<Box<dyn DynScenario>> {
    vec![Box::new(Erased(Arc::new(lru::Lru)))]
}

pub fn by_property(id: &str) -> Option<Box<dyn DynScenario>> {
    all().into_iter().find(|s| s.property().eq_ignore_ascii_case(id) || s.name().eq_ignore_ascii_case(id))
}

/// A paused current-thread tokio runtime: timers are virtual, `tokio::fs` works
/// (auto-advance is inhibited while a blocking job is in flight).
pub fn paused_runtime() -> tokio::runtime::Runtime {
    tokio::runtime::Builder::new_current_thread()
        .enable_all()
        .start_paused(true)
        .build()
        .expect("tokio runtime")
}

pub fn hex(b: &[u8]) -> String {
    hex::encode(b)
}

//! Scenarios: one module per property.

use crate::framework::{DynScenario, Erased};
use std::sync::Arc;

pub mod cache;
pub mod cdn;
pub mod conc;
pub mod corrupt;
pub mod crash;
pub mod failover;
pub mod kmt;
pub mod layers;
pub mod lru;
pub mod retry;
pub mod ribbit;
pub mod store;

pub fn all() -> Vec<Box<dyn DynScenario>> {
    vec![Box::new(Erased(Arc::new(lru::Lru))), Box::new(Erased(Arc::new(cache::Cache))), Box::new(Erased(Arc::new(kmt::Kmt))), Box::new(Erased(Arc::new(store::Store))), Box::new(Erased(Arc::new(crash::Crash))), Box::new(Erased(Arc::new(corrupt::Corrupt))), Box::new(Erased(Arc::new(retry::Retry))), Box::new(Erased(Arc::new(layers::Layers))), Box::new(Erased(Arc::new(conc::Conc))), Box::new(Erased(Arc::new(failover::Failover))), Box::new(Erased(Arc::new(ribbit::Ribbit)))]
}

pub fn by_property(id: &str) -> Option<Box<dyn DynScenario>> {
    all().into_iter().find(|s| s.property().eq_ignore_ascii_case(id) || s.name().eq_ignore_ascii_case(id))
}

/// A paused current-thread tokio runtime: timers are virtual, `tokio::fs` works
/// (auto-advance is inhibited while a blocking job is in flight).
pub fn paused_runtime() -> tokio::runtime::Runtime {
    tokio::runtime::Builder::new_current_thread()
        .enable_all()
        .start_paused(true)
        .build()
        .expect("tokio runtime")
}

pub fn hex(b: &[u8]) -> String {
    hex::encode(b)
}

/// A plain string cache key (benign names: no separators, no dots).
#[derive(Debug, Clone, PartialEq, Eq, Hash)]
pub struct SimKey(pub String);
impl cascette_cache::key::CacheKey for SimKey {
    fn as_cache_key(&self) -> &str {
        &self.0
    }
}
impl SimKey {
    pub fn n(i: usize) -> Self {
        SimKey(format!("k{i}"))
    }
}

/// Deterministic payload: `len` bytes derived from `tag` (the first 8 bytes are the tag
/// itself when there is room, so every written value is attributable to one write).
pub fn payload(tag: u64, len: usize) -> Vec<u8> {
    let mut v = Vec::with_capacity(len);
    let mut s = tag ^ 0xA5A5_5A5A_1234_5678;
    let t = tag.to_le_bytes();
    while v.len() < len {
        if v.len() < 8 {
            v.push(t[v.len()]);
        } else {
            let x = crate::prng::splitmix64(&mut s).to_le_bytes();
            let take = (len - v.len()).min(8);
            v.extend_from_slice(&x[..take]);
        }
    }
    v
}

/// Advance both clocks: the interposed libc clock first (so that tasks woken by tokio's
/// timers already see the new wall-clock time), then tokio's paused clock, then let
/// spawned tasks run.
pub async fn advance_both(d: std::time::Duration) {
    crate::seams::advance_ns(d.as_nanos() as u64);
    tokio::time::advance(d).await;
    for _ in 0..4 {
        tokio::task::yield_now().await;
    }
}

//! C13 — version-service queries fail over in order and cache only good answers; the
//! parsed answer does not depend on how the transport split the bytes.

use crate::framework::{shrink_vec, Ctx, Scenario, Tier, Violation};
use crate::net::{End, HttpBehaviour, Network, SegPolicy};
use crate::prng::Rng;
use crate::seams;
use cascette_formats::bpsv::BpsvDocument;
use cascette_formats::CascFormat;
use cascette_protocol::{CacheConfig, ClientConfig, RetryPolicy, RibbitTactClient};
use serde::{Deserialize, Serialize};
use serde_json::json;
use sha2::{Digest, Sha256};
use std::sync::Arc;
use std::time::Duration;
use tokio::io::{AsyncReadExt, AsyncWriteExt};

pub struct Failover;

#[derive(Clone, Debug, Serialize, Deserialize, PartialEq)]
pub enum Step {
    Query,
    Advance { ms: u64 },
    /// a new client; with a disk cache it shares the cache directory of the old one
    NewClient,
    /// change the behaviour of the three endpoints
    Swap { https: String, http: String, tcp: String },
    /// disk cache only: every file under the cache directory is left empty (how = 0: what a crash between
    /// create and write leaves) or overwritten with an HTML error page (how = 1: a foreign writer). Neither
    /// parses as an answer, so the cache holds nothing usable: the next query must go to the network.
    PoisonCache { how: u8 },
    /// a query for ANOTHER endpoint through the same client and cache (versions <-> cdns of the same product, ...):
    /// the endpoints serve different documents for it. Judged: an answer carries the rows served for THAT
    /// endpoint (never the first endpoint's, cached or not); and the first endpoint's cached answer is unharmed
    /// (the ordinary checks of the following queries).
    QueryOther,
}

#[derive(Clone, Debug, Serialize, Deserialize)]
pub struct Case {
    pub https: String,
    pub http: String,
    pub tcp: String,
    pub endpoint: String,
    /// "memory" | "disk"
    pub cache: String,
    /// segmentation of server->client bytes on TCP
    pub seg: String,
    pub net_seed: u64,
    pub doc_seed: u64,
    pub script: Vec<Step>,
    /// the client is configured without a TACT HTTPS / HTTP endpoint (empty URL): the hop is not permitted
    #[serde(default)]
    pub no_https: bool,
    #[serde(default)]
    pub no_http: bool,
    /// when present the run is a CDN run instead (CdnClient::download cache-then-fetch-then-store)
    #[serde(default)]
    pub cdn: Option<super::cdn::CdnCase>,
    /// size class of the served documents: 0 = up to 4 rows (under 1 KiB), 1 = 150-400 rows (10-40 KiB: several
    /// read-buffer fills), 2 = one STRING value of 9000 bytes (a single line longer than the client's read buffer),
    /// 3 = a header line of more than 512 bytes (longer than the format-sniffing window)
    #[serde(default)]
    pub big_doc: u8,
}

// every 5xx is a transient server failure and every 4xx other than 429 a definitive refusal, not only the common codes
const HTTP_BEHAVIOURS: [&str; 30] = ["ok", "500", "502", "503", "504", "501", "507", "521", "599", "429", "429ra", "429ra0", "429radate", "429rafrac", "429rabad", "429rabig", "429raneg", "400", "403", "404", "401", "410", "418", "malformed200", "empty200", "refused", "reset", "stall", "body_reset", "body_stall"];
const TCP_BEHAVIOURS: [&str; 13] = ["mime_ok", "mime_ok_data", "v2_ok", "v2_blank", "malformed", "refused", "close_before", "close_mid", "reset_mid", "stall", "mime_bad_checksum", "mime_ok_sig", "mime_ok_endpoint"];
const SEGS: [&str; 5] = ["whole", "bytes1", "random", "blank", "tokens"];

fn seg_of(s: &str) -> SegPolicy {
    match s {
        "bytes1" => SegPolicy::Bytes1,
        "random" => SegPolicy::Random { max: 6 },
        "blank" => SegPolicy::AfterBlankLines,
        "tokens" => SegPolicy::InsideTokens,
        _ => SegPolicy::Whole,
    }
}

// deliberately NOT the shipped defaults (300 / 3600 / 1800 s): a client that ignores its configuration shows
const RIBBIT_TTL_S: u64 = 200;
const CDN_TTL_S: u64 = 2000;
const CONFIG_TTL_S: u64 = 900;

fn ttl_of(endpoint: &str) -> u64 {
    if endpoint.contains("versions") || endpoint.contains("bgdl") {
        RIBBIT_TTL_S
    } else if endpoint.contains("cdns") {
        CDN_TTL_S
    } else {
        CONFIG_TTL_S
    }
}
fn tcp_only(endpoint: &str) -> bool {
    endpoint.starts_with("v1/summary") || endpoint.starts_with("v1/certs/") || endpoint.starts_with("v1/ocsp/")
}

/// The second endpoint of a run (Step::QueryOther): same product where there is one, another class.
fn other_endpoint(ep: &str) -> &'static str {
    match ep {
        "v1/products/wow/versions" => "v1/products/wow/cdns",
        "v1/products/wow_classic/cdns" => "v1/products/wow_classic/versions",
        "v1/certs/abcdef0123" => "v1/summary",
        _ => "v1/products/wow/versions",
    }
}
/// What tells a request for the second endpoint from one for the first: its last two path segments.
fn tail_of(ep: &str) -> String {
    let mut t: Vec<&str> = ep.rsplit('/').take(2).collect();
    t.reverse();
    t.join("/")
}

/// A generated BPSV document (text form, LF line endings).
fn gen_doc(seed: u64, variant: u64, big: u8) -> String {
    let mut r = Rng::new(seed ^ variant.wrapping_mul(0x9E37));
    let mut s = String::from("Region!STRING:0|BuildConfig!HEX:16|BuildId!DEC:4|VersionsName!STRING:0\n");
    // header-only documents (zero data rows) are ordinary successful answers (bgdl of most products,
    // versions of unpublished ones) and must be cached like any other
    if big == 3 {
        // forty more columns with long names: the header line alone exceeds 512 bytes
        s = s.trim_end().to_string();
        for c in 0..40 {
            s.push_str(&format!("|ExtraColumnWithALongName{c:02}!STRING:0"));
        }
        s.push('\n');
    }
    let rows = if big == 1 { r.range(150, 400) } else if big == 2 { r.range(1, 5) } else if r.chance(1, 5) { 0 } else { r.range(1, 5) };
    for i in 0..rows {
        let region = ["us", "eu", "cn", "kr", "tw", "sg", "xx"][(i as usize + r.usize_below(3)) % 7];
        let mut h = [0u8; 16];
        r.fill(&mut h);
        let name = if big == 2 && i == 0 { format!("{}-{variant}", "long-version-name-".repeat(500)) } else { format!("{}.{}.{}.{}", r.below(12), r.below(20), r.below(9), 40_000 + r.below(20_000) + variant) };
        s.push_str(&format!("{region}|{}|{}|{name}", hex::encode(h), r.below(100_000)));
        if big == 3 {
            for c in 0..40 {
                s.push_str(&format!("|x{c}"));
            }
        }
        s.push('\n');
    }
    s.push_str(&format!("## seqn = {}\n", 1000 + r.below(100_000)));
    s
}

/// Data rows of a generated document: every line after the header that is not a '## ' comment, split at '|'.
fn plain_rows(doc: &str) -> Vec<Vec<String>> {
    doc.lines().skip(1).filter(|l| !l.starts_with("##") && !l.trim().is_empty()).map(|l| l.split('|').map(str::to_string).collect()).collect()
}

fn mime_wrap(bpsv: &str, disposition: &str) -> Vec<u8> {
    let parts = [
        "MIME-Version: 1.0\r\n",
        "Content-Type: multipart/alternative; boundary=\"RibbitBoundary\"\r\n",
        "\r\n",
        "--RibbitBoundary\r\n",
        "Content-Type: text/plain\r\n",
        &format!("Content-Disposition: {disposition}\r\n"),
        "\r\n",
        bpsv,
        "\r\n",
        "--RibbitBoundary--\r\n",
    ];
    let body = parts.join("");
    let mut h = Sha256::new();
    h.update(body.as_bytes());
    format!("{body}Checksum: {:x}\r\n", h.finalize()).into_bytes()
}

/// The shape the official service sends: the data part (disposition = `disposition`) followed by a detached
/// signature part (base64), both inside one multipart message, checksum over everything before its line.
fn mime_wrap_sig(bpsv: &str, disposition: &str) -> Vec<u8> {
    let sig = "MIIBygYJKoZIhvcNAQcCoIIBuzCCAbcCAQExDzANBglghkgBZQMEAgEFADALBgkq\r\nhkiG9w0BBwExggGSMIIBjgIBATBpMFQxCzAJBgNVBAYTAlVTMRswGQYDVQQKExJC\r\n";
    let parts = [
        "MIME-Version: 1.0\r\n",
        "Content-Type: multipart/alternative; boundary=\"RibbitBoundary\"\r\n",
        "\r\n",
        "--RibbitBoundary\r\n",
        "Content-Type: text/plain\r\n",
        &format!("Content-Disposition: {disposition}\r\n"),
        "\r\n",
        bpsv,
        "\r\n",
        "--RibbitBoundary\r\n",
        "Content-Type: application/octet-stream\r\n",
        "Content-Disposition: signature\r\n",
        "Content-Transfer-Encoding: base64\r\n",
        "\r\n",
        sig,
        "\r\n",
        "--RibbitBoundary--\r\n",
    ];
    let body = parts.join("");
    let mut h = Sha256::new();
    h.update(body.as_bytes());
    format!("{body}Checksum: {:x}\r\n", h.finalize()).into_bytes()
}

fn view(doc: &BpsvDocument) -> String {
    format!("{:?}|{:?}", doc.field_names(), doc.rows().iter().map(|r| format!("{r:?}")).collect::<Vec<_>>())
}

#[derive(Clone, Copy, Debug, PartialEq)]
enum Class {
    Answer,
    Transient,
    Definitive,
}

/// What an HTTP behaviour amounts to, given the body it serves.
fn http_class(b: &str, body_ok: bool) -> Class {
    match b {
        "ok" => {
            if body_ok { Class::Answer } else { Class::Definitive }
        }
        "malformed200" | "empty200" => {
            if body_ok { Class::Answer } else { Class::Definitive }
        }
        _ => match b.parse::<u16>() {
            Ok(code) if (400..500).contains(&code) && code != 429 => Class::Definitive,
            _ => Class::Transient,
        },
    }
}

impl Scenario for Failover {
    type Case = Case;
    fn property(&self) -> &'static str {
        "C13"
    }
    fn name(&self) -> &'static str {
        "failover"
    }
    fn level(&self) -> &'static str {
        "exploration"
    }
    fn rule(&self) -> &'static str {
        "Per run: a behaviour for each of the three endpoints (TACT HTTPS, TACT HTTP, Ribbit TCP) out of {valid BPSV, valid V1 MIME (two disposition styles; with and without the detached signature part the official service appends, disposition 'version' or the endpoint class), valid V2 text, V2 text with a blank line, 500/502/503/504, 429 with/without Retry-After, 400/403/404, 200 with malformed/empty body, refused, reset, closed before/mid response, stall}, an endpoint class (versions/cdns/bgdl/TCP-only summary+certs/other), memory or disk protocol cache, a TCP segmentation policy, a document size class (up to 4 rows; one run in ten 150-400 rows = 10-40 KiB, or one 9000-byte value, or a header line over 512 bytes), and a script of 1-6 steps Query | Advance(before/after the class's TTL) | NewClient(same cache dir) | SwapBehaviours | (one run in four) QueryOther = a query for a second endpoint through the same client and cache, for which the endpoints serve other documents: its answer must carry THOSE rows, and the first endpoint's cached answer must survive it | (one disk-cache run in six) PoisonCache = every file under the cache directory left empty or overwritten with an HTML page, after which nothing usable is cached and a query must walk the chain again, on the real RibbitTactClient over the simulated network under the virtual clock. Oracle: executable decision table (request log = prefix of [https,http,tcp] stopping at the first well-formed answer or definitive refusal; Ok iff that endpoint answered, document equal to what it served; cached answers produce zero network events until the TTL, at least one after; failures are never cached), and the same script repeated under other segmentations must give identical outcomes. One run in eight is a CDN run instead (scen/cdn.rs): the real CdnClient (download / download_archive_index) + ProtocolCache (memory or disk) over the simulated HTTP transport; a script of 1-7 steps Download(key, content type, per-request behaviour queue) | Index | Advance(around the configured TTLs) | NewClient(same directory); the host answers the successive requests of a download from the queue {ok, 5xx x8, 429 with no / 0 / 1 / 7 / unparsable (word, HTTP date, 2^64, negative, fractional) Retry-After, 400/403/404/410, refused, reset, client time-out, body reset, body stall}. C13's oracles there: a download within the smallest configured TTL of a successful one sends no request and returns the same bytes (also by a new client on the same directory), after the largest TTL it sends one, a failed download is never served from the cache, every request names the caller's object, bytes equal what was served, a broken body is never Ok. Non-trivial = >= 2 queries or >= 1 fail-over; faults counted when they fire; distinct = hash of (case, request log, outcomes)."
    }
    fn assumptions(&self) -> Vec<&'static str> {
        vec![
            "transport failures are injected as ProtocolError::Network/Timeout (reqwest::Error has no public constructor); the classification treats them like reqwest's connect/timeout errors",
            "clock jumps land at least 10 s away from a TTL boundary",
            "CDN arm: 'its time-to-live' of a downloaded object is either the configured CDN TTL or the configured configuration TTL (the property does not say; today it is the latter): caching is judged before the smaller and after the larger one only",
            "the interposed libc clock follows tokio's virtual clock with a granularity of 10 ms (ticker task)",
            "'well-formed' for a served body is decided by the real BPSV parser on the exact bytes served",
        ]
    }
    fn components(&self) -> Vec<(&'static str, &'static str)> {
        vec![
            ("RibbitTactClient::query / query_with_fallback / determine_ttl / validate_endpoint", "real"),
            ("TactClient::query (URL building, status classification, body parse)", "real (request built by reqwest; sent through the http_send seam)"),
            ("RibbitClient (connect/read time-outs, read loop, V1 MIME + checksum / V2 parse)", "real (on the simulated TcpStream)"),
            ("ProtocolCache over MemoryCache / DiskCache", "real"),
            ("the three endpoints", "stub (scripted behaviours)"),
            ("CDN arm: CdnClient::download / download_archive_index (cache key, URL building, cache-then-fetch-then-store), ProtocolCache over MemoryCache / DiskCache", "real"),
            ("CDN arm: the CDN host, reqwest connection pool and its 45 s client time-out", "stub (in-process transport behind the http_send seam)"),
            ("kernel TCP, TLS, hyper, reqwest connection pool", "stub (in-process network)"),
            ("clocks", "simulated (paused tokio + interposed libc clock)"),
        ]
    }
    fn runs(&self, tier: Tier) -> u64 {
        match tier {
            Tier::Quick => 12_000,
            Tier::Thorough => 300_000,
        }
    }

    fn process_init(&self) {
        super::cdn::process_init();
    }

    fn generate(&self, rng: &mut Rng, _tier: Tier) -> Case {
        let pick_http = |rng: &mut Rng| -> String {
            if rng.chance(25, 100) { "ok".into() } else { (*rng.pick(&HTTP_BEHAVIOURS)).to_string() }
        };
        let pick_tcp = |rng: &mut Rng| -> String {
            if rng.chance(35, 100) { (*rng.pick(&["mime_ok", "v2_ok"])).to_string() } else { (*rng.pick(&TCP_BEHAVIOURS)).to_string() }
        };
        let endpoint = (*rng.pick(&[
            "v1/products/wow/versions",
            "v1/products/wow/versions",
            "v1/products/wow_classic/cdns",
            "v1/products/wow/bgdl",
            "v1/summary",
            "v1/certs/abcdef0123",
            "v1/products/wow/other",
        ]))
        .to_string();
        let nsteps = rng.range(1, 6) as usize;
        let ttl = ttl_of(&endpoint);
        let mut script = vec![Step::Query];
        for _ in 1..nsteps {
            let st = match rng.below(100) {
                0..=49 => Step::Query,
                50..=74 => Step::Advance { ms: 1000 * *rng.pick(&[1, 30, ttl / 2, ttl - 15, ttl + 15, ttl * 2]) },
                75..=84 => Step::NewClient,
                _ => Step::Swap { https: pick_http(rng), http: pick_http(rng), tcp: pick_tcp(rng) },
            };
            script.push(st);
        }
        let case = Case {
            https: pick_http(rng),
            http: pick_http(rng),
            tcp: pick_tcp(rng),
            endpoint,
            cache: (*rng.pick(&["memory", "memory", "disk"])).to_string(),
            seg: (*rng.pick(&SEGS)).to_string(),
            net_seed: rng.next_u64(),
            doc_seed: rng.next_u64(),
            script,
            no_https: rng.chance(1, 10),
            no_http: rng.chance(1, 10),
            // drawn last: one run in eight exercises the CDN client's cache-then-fetch-then-store instead
            cdn: if rng.chance(1, 8) { Some(super::cdn::generate(rng)) } else { None },
            big_doc: 0,
        };
        // drawn after everything else: one disk-cache run in six has its cache files emptied / overwritten once
        let mut case = case;
        // ... one run in four asks for a second endpoint somewhere after the first query
        if case.cdn.is_none() && rng.chance(1, 4) {
            let at = rng.range(1, case.script.len() as u64) as usize;
            case.script.insert(at.min(case.script.len()), Step::QueryOther);
            if rng.chance(1, 2) {
                case.script.push(Step::Query);
            }
        }
        // ... and one run in ten serves large documents (never cut into single bytes: 40 000 segments per answer)
        if rng.chance(1, 10) {
            case.big_doc = *rng.pick(&[1u8, 1, 2, 3]);
            if case.seg == "bytes1" {
                case.seg = "random".into();
            }
        }
        if case.cache == "disk" && case.cdn.is_none() && rng.chance(1, 6) {
            let at = rng.range(1, case.script.len() as u64) as usize;
            case.script.insert(at.min(case.script.len()), Step::PoisonCache { how: rng.below(2) as u8 });
            case.script.push(Step::Query);
        }
        case
    }

    fn execute(&self, case: &Case, ctx: &mut Ctx) -> Option<Violation> {
        let rt = super::paused_runtime();
        if let Some(cdn) = &case.cdn {
            return rt.block_on(super::cdn::run(cdn, ctx, super::cdn::Owner::C13));
        }
        rt.block_on(run(case, ctx))
    }

    fn shrink(&self, case: &Case) -> Vec<Case> {
        if let Some(cdn) = &case.cdn {
            return super::cdn::shrink(cdn).into_iter().map(|c| Case { cdn: Some(c), ..case.clone() }).collect();
        }
        let mut out = Vec::new();
        for s in shrink_vec(&case.script) {
            if s.iter().any(|x| *x == Step::Query) {
                out.push(Case { script: s, ..case.clone() });
            }
        }
        if case.seg != "whole" {
            out.push(Case { seg: "whole".into(), ..case.clone() });
        }
        if case.cache != "memory" {
            out.push(Case { cache: "memory".into(), ..case.clone() });
        }
        for (f, v) in [("https", &case.https), ("http", &case.http)] {
            if v != "refused" {
                let mut c = case.clone();
                if f == "https" { c.https = "refused".into() } else { c.http = "refused".into() }
                out.push(c);
            }
        }
        out
    }
}

#[derive(Clone, Debug, PartialEq)]
enum Outcome {
    Ok(String),
    Err(String),
    Other,
}

struct Behaviours {
    https: String,
    http: String,
    tcp: String,
}

/// Body served by an endpoint for a behaviour.
fn http_body(b: &str, doc: &str) -> Vec<u8> {
    match b {
        "ok" => doc.as_bytes().to_vec(),
        "malformed200" => b"<html><body>Service temporarily unavailable</body></html>\n".to_vec(),
        "empty200" => Vec::new(),
        _ => b"error".to_vec(),
    }
}
fn tcp_bytes(b: &str, doc: &str) -> Vec<u8> {
    match b {
        "mime_ok" => mime_wrap(doc, "version"),
        "mime_ok_data" => mime_wrap(doc, "data"),
        "mime_ok_sig" => mime_wrap_sig(doc, "version"),
        // (the disposition names the endpoint class, as the official service does for cdns / bgdl / summary)
        "mime_ok_endpoint" => mime_wrap_sig(doc, "cdns"),
        "v2_ok" => doc.as_bytes().to_vec(),
        "v2_blank" => {
            // a blank line after the header row
            let mut lines: Vec<&str> = doc.split_inclusive('\n').collect();
            if lines.len() > 1 {
                lines.insert(1, "\n");
            }
            lines.concat().into_bytes()
        }
        "close_mid" | "reset_mid" => mime_wrap(doc, "version"),
        "mime_bad_checksum" => {
            // a complete V1 response whose checksum line does not match the message (one hex digit changed)
            let mut v = mime_wrap(doc, "version");
            let n = v.len();
            if n > 10 {
                v[n - 10] = if v[n - 10] == b'0' { b'1' } else { b'0' };
            }
            v
        }
        "malformed" => b"\xff\xfe not a response at all \x00\x01\n".to_vec(),
        _ => Vec::new(),
    }
}

fn install(net: &Network, b: &Arc<std::sync::Mutex<Behaviours>>, docs: [String; 3], other_docs: [String; 3], other_tail: String) {
    for (i, host) in ["https://sim-https.test", "http://sim-http.test"].iter().enumerate() {
        let b2 = b.clone();
        let doc = docs[i].clone();
        let odoc = other_docs[i].clone();
        let otail = other_tail.clone();
        let net2 = net.clone();
        net.script_http(
            host,
            Arc::new(move |_host: String, path: String| {
                let name = {
                    let g = b2.lock().unwrap_or_else(std::sync::PoisonError::into_inner);
                    if i == 0 { g.https.clone() } else { g.http.clone() }
                };
                let doc = if path.ends_with(&otail) { odoc.clone() } else { doc.clone() };
                let net3 = net2.clone();
                Box::pin(async move {
                    let status = match name.as_str() {
                        "ok" | "malformed200" | "empty200" => 200,
                        s if s.starts_with("429") => 429,
                        "refused" => return HttpBehaviour::Refused,
                        "reset" => return HttpBehaviour::Reset { delay_ms: 20 },
                        "stall" => return HttpBehaviour::Stall,
                        "body_reset" | "body_stall" => {
                            let full = http_body("ok", &doc);
                            let cut = full.len() / 2;
                            return HttpBehaviour::BrokenBody { status: 200, prefix: full[..cut].to_vec(), stall: name == "body_stall", delay_ms: 12 };
                        }
                        other => other.parse().unwrap_or(500),
                    };
                    if status != 200 {
                        net3.count(&format!("fault:http_{status}"));
                    } else if name != "ok" {
                        net3.count("fault:malformed_body");
                    }
                    let mut headers = vec![];
                    // Retry-After in every form a server may send (RFC 9110: delay seconds or an HTTP date) and
                    // a few it should not: a 429 is a transient failure whatever the hint says
                    let hint = match name.as_str() {
                        "429ra" => Some("7"),
                        "429ra0" => Some("0"),
                        "429radate" => Some("Wed, 21 Oct 2026 07:28:00 GMT"),
                        "429rafrac" => Some("1.5"),
                        "429rabad" => Some("soon"),
                        "429rabig" => Some("18446744073709551616"),
                        "429raneg" => Some("-1"),
                        _ => None,
                    };
                    if let Some(h) = hint {
                        headers.push(("Retry-After".to_string(), h.to_string()));
                    }
                    HttpBehaviour::Respond { status, headers, body: http_body(&name, &doc), delay_ms: 12 }
                })
            }),
        );
    }
    let b2 = b.clone();
    let doc = docs[2].clone();
    let odoc = other_docs[2].clone();
    let oep = other_tail;
    let net2 = net.clone();
    net.script_tcp(
        "sim-tcp.test:1119",
        Arc::new(move |mut end: End, addr: String| {
            let name = b2.lock().unwrap_or_else(std::sync::PoisonError::into_inner).tcp.clone();
            let doc = doc.clone();
            let odoc = odoc.clone();
            let oep = oep.clone();
            let net3 = net2.clone();
            Box::pin(async move {
                // read the request line (until LF or EOF)
                let mut req = Vec::new();
                let mut buf = [0u8; 256];
                loop {
                    match end.read(&mut buf).await {
                        Ok(0) | Err(_) => break,
                        Ok(n) => {
                            req.extend_from_slice(&buf[..n]);
                            if req.contains(&b'\n') {
                                break;
                            }
                        }
                    }
                }
                net3.event(&addr, format!("request {:?}", String::from_utf8_lossy(&req).trim()));
                let doc = if String::from_utf8_lossy(&req).trim().ends_with(&oep) { odoc.clone() } else { doc };
                let bytes = tcp_bytes(&name, &doc);
                match name.as_str() {
                    "close_before" => {
                        net3.count("fault:closed_before_response");
                    }
                    "close_mid" => {
                        net3.count("fault:closed_mid_response");
                        let cut = bytes.len() * 2 / 3;
                        let _ = end.write_all(&bytes[..cut]).await;
                    }
                    "reset_mid" => {
                        net3.count("fault:connection_reset");
                        let _ = end.write_all(&bytes[..bytes.len() / 2]).await;
                        tokio::time::sleep(Duration::from_millis(40)).await;
                        end.reset();
                    }
                    "stall" => {
                        net3.count("fault:stall");
                        std::future::pending::<()>().await;
                    }
                    _ => {
                        if name == "malformed" {
                            net3.count("fault:malformed_body");
                        }
                        if name == "mime_bad_checksum" {
                            net3.count("fault:wrong_checksum");
                        }
                        let _ = end.write_all(&bytes).await;
                        let _ = end.shutdown().await;
                    }
                }
            })
        }),
    );
}

async fn run(case: &Case, ctx: &mut Ctx) -> Option<Violation> {
    ctx.obs(serde_json::to_string(case).unwrap_or_default().as_bytes());
    // three different documents so that the serving endpoint is identifiable
    let docs = [gen_doc(case.doc_seed, 1, case.big_doc), gen_doc(case.doc_seed, 2, case.big_doc), gen_doc(case.doc_seed, 3, case.big_doc)];
    // keep the libc clock in step with tokio's virtual clock
    let t_start = tokio::time::Instant::now();
    let ticker = tokio::spawn(async move {
        loop {
            tokio::time::sleep(Duration::from_millis(10)).await;
            seams::advance_to_at_least(t_start.elapsed().as_nanos() as u64);
        }
    });
    let first = run_script(case, &case.seg, &docs, ctx, 0, true).await;
    let res = match first {
        Err(v) => Some(v),
        Ok((outcomes, reached_tcp)) => {
            let mut viol = None;
            if reached_tcp {
                // metamorphic: other segmentations of the same bytes
                let mut alts: Vec<&str> = SEGS.iter().copied().filter(|s| *s != case.seg && !(case.big_doc != 0 && *s == "bytes1")).collect();
                let rot = (case.net_seed % alts.len() as u64) as usize;
                alts.rotate_left(rot);
                for (j, seg) in alts.iter().take(3).enumerate() {
                    match run_script(case, seg, &docs, ctx, j + 1, false).await {
                        Err(v) => {
                            viol = Some(Violation::new(&v.oracle, &v.class, format!("{},seg={seg}", v.signature), format!("(under segmentation '{seg}') {}", v.detail)));
                            break;
                        }
                        Ok((o2, _)) => {
                            ctx.count("metamorphic_reruns");
                            // what must not depend on the segmentation is success/failure and the document; the
                            // TEXT of an error may legitimately mention byte counts
                            let same = |a: &Outcome, b: &Outcome| match (a, b) {
                                (Outcome::Ok(x), Outcome::Ok(y)) => x == y,
                                (Outcome::Err(_), Outcome::Err(_)) | (Outcome::Other, Outcome::Other) => true,
                                _ => false,
                            };
                            if o2.len() != outcomes.len() || !o2.iter().zip(outcomes.iter()).all(|(a, b)| same(a, b)) {
                                let idx = o2.iter().zip(outcomes.iter()).position(|(a, b)| !same(a, b)).unwrap_or(0);
                                viol = Some(Violation::new(
                                    "C13.segmentation_independent",
                                    "segmentation_dependent",
                                    format!("C13/failover/segmentation_dependent/tcp={}", case.tcp),
                                    format!("step #{idx} gives {:?} when the TCP bytes are segmented '{}' but {:?} when segmented '{seg}' (same bytes, same behaviours)", short(&outcomes[idx]), case.seg, short(&o2[idx])),
                                ));
                                break;
                            }
                        }
                    }
                }
            }
            viol
        }
    };
    ticker.abort();
    ctx.count_n("tokio_virtual_ms", t_start.elapsed().as_millis() as u64);
    res
}

fn short(o: &Outcome) -> String {
    match o {
        Outcome::Ok(d) => format!("Ok({} chars: {}...)", d.len(), &d[..d.len().min(60)]),
        Outcome::Err(e) => format!("Err({})", &e[..e.len().min(80)]),
        Outcome::Other => "-".into(),
    }
}

#[allow(clippy::too_many_lines)]
async fn run_script(case: &Case, seg: &str, docs: &[String; 3], ctx: &mut Ctx, variant: usize, primary: bool) -> Result<(Vec<Outcome>, bool), Violation> {
    let net = Network::new(case.net_seed ^ (variant as u64).wrapping_mul(0xABCD_EF01));
    net.set_policies(SegPolicy::Whole, seg_of(seg));
    let behaviours = Arc::new(std::sync::Mutex::new(Behaviours { https: case.https.clone(), http: case.http.clone(), tcp: case.tcp.clone() }));
    let other_ep = other_endpoint(&case.endpoint);
    let other_docs = [gen_doc(case.doc_seed, 11, 0), gen_doc(case.doc_seed, 12, 0), gen_doc(case.doc_seed, 13, 0)];
    install(&net, &behaviours, docs.clone(), other_docs.clone(), tail_of(other_ep));
    cascette_protocol::verif_hooks::install_net(Some(Arc::new(net.clone())));
    cascette_protocol::verif_hooks::install_http(Some(Arc::new(net.clone())));
    let cache_dir = ctx.root.join(format!("pcache{variant}"));
    let mk_client = || -> Result<RibbitTactClient, String> {
        let cfg = ClientConfig {
            tact_https_url: if case.no_https { String::new() } else { "https://sim-https.test".into() },
            tact_http_url: if case.no_http { String::new() } else { "http://sim-http.test".into() },
            ribbit_url: "tcp://sim-tcp.test:1119".into(),
            cache_config: CacheConfig {
                cache_dir: if case.cache == "disk" { Some(cache_dir.clone()) } else { None },
                ribbit_ttl: Duration::from_secs(RIBBIT_TTL_S),
                cdn_ttl: Duration::from_secs(CDN_TTL_S),
                config_ttl: Duration::from_secs(CONFIG_TTL_S),
                ..CacheConfig::default()
            },
            connect_timeout: Duration::from_secs(10),
            request_timeout: Duration::from_secs(30),
            retry_policy: RetryPolicy::default(),
        };
        RibbitTactClient::new(cfg).map_err(|e| e.to_string())
    };
    let mut client = match mk_client() {
        Ok(c) => c,
        Err(e) => panic!("harness: cannot build client: {e}"),
    };
    let t_start = tokio::time::Instant::now();
    let now_ms = || t_start.elapsed().as_millis() as u64;
    let chain: Vec<&str> = if tcp_only(&case.endpoint) { vec!["tcp"] } else { ["https", "http", "tcp"].into_iter().filter(|h| !((*h == "https" && case.no_https) || (*h == "http" && case.no_http))).collect() };
    let ttl_ms = ttl_of(&case.endpoint) * 1000;
    // model of the cache: (document view, stored at ms, by which client generation)
    let mut cached: Option<(String, u64, u32)> = None;
    let mut client_gen = 0u32;
    let mut outcomes = Vec::new();
    let mut reached_tcp = false;
    let mut queries = 0u32;
    let sigb = format!("https={},http={},tcp={}", case.https, case.http, case.tcp);
    let _ = &sigb;

    macro_rules! viol {
        ($class:expr, $extra:expr, $detail:expr) => {{
            cascette_protocol::verif_hooks::install_net(None);
            cascette_protocol::verif_hooks::install_http(None);
            return Err(Violation::new(concat!("C13.", $class), $class, format!("C13/failover/{}{}", $class, $extra), $detail));
        }};
    }

    for (i, step) in case.script.iter().enumerate() {
        match step {
            Step::Advance { ms } => {
                super::advance_both(Duration::from_millis(*ms)).await;
                if primary {
                    ctx.event(|| json!({"k":"clock","advance_ms":ms,"t_ms":now_ms()}));
                }
                outcomes.push(Outcome::Other);
            }
            Step::NewClient => {
                drop(client);
                client = match mk_client() {
                    Ok(c) => c,
                    Err(e) => viol!("new_client_failed", "", format!("step #{i}: creating a new client on the same cache directory failed: {e}")),
                };
                client_gen += 1;
                if case.cache != "disk" {
                    cached = None;
                }
                if primary {
                    ctx.event(|| json!({"k":"op","op":"new_client","cache":case.cache}));
                }
                outcomes.push(Outcome::Other);
            }
            Step::PoisonCache { how } => {
                let mut n = 0u32;
                if case.cache == "disk" {
                    let mut stack = vec![cache_dir.clone()];
                    while let Some(d) = stack.pop() {
                        for e in std::fs::read_dir(&d).into_iter().flatten().flatten() {
                            let p = e.path();
                            if p.is_dir() {
                                stack.push(p);
                            } else if std::fs::write(&p, if *how == 0 { &b""[..] } else { &b"<html><body>Service temporarily unavailable</body></html>\n"[..] }).is_ok() {
                                n += 1;
                            }
                        }
                    }
                    if n > 0 {
                        // whatever was cached is gone: nothing usable is cached
                        cached = None;
                        net.count("fault:cache_file_emptied_or_overwritten");
                    }
                }
                if primary {
                    ctx.event(|| json!({"k":"fault","fault":"poison_cache_files","how":how,"files":n}));
                }
                outcomes.push(Outcome::Other);
            }
            Step::QueryOther => {
                let before = net.log_len();
                let res = tokio::time::timeout(Duration::from_secs(600), client.query(other_ep)).await;
                seams::advance_to_at_least(t_start.elapsed().as_nanos() as u64);
                let _ = before;
                let _ = net.take_log();
                if primary {
                    ctx.event(|| json!({"k":"op","op":"query_other_endpoint","endpoint":other_ep,"ret":match &res { Ok(Ok(d)) => format!("Ok({} rows)", d.rows().len()), Ok(Err(e)) => format!("Err({e})"), Err(_) => "no completion".into() }}));
                    ctx.count("queries_for_a_second_endpoint");
                }
                if let Ok(Ok(d)) = &res {
                    let got: Vec<Vec<String>> = d.rows().iter().map(|r| r.raw_values().to_vec()).collect();
                    if !other_docs.iter().any(|od| plain_rows(od) == got) {
                        let first = docs.iter().any(|dd| plain_rows(dd) == got);
                        viol!("answer_for_another_endpoint", if first { ",rows=first_endpoints" } else { "" }, format!("step #{i}: query({other_ep:?}) through a client that had been asked for {:?} returned {} rows that are not what any endpoint serves for {other_ep:?}{}", case.endpoint, got.len(), if first { " - they are the rows served for the FIRST endpoint" } else { "" }));
                    }
                }
                outcomes.push(Outcome::Other);
            }
            Step::Swap { https, http, tcp } => {
                let mut g = behaviours.lock().unwrap_or_else(std::sync::PoisonError::into_inner);
                g.https = https.clone();
                g.http = http.clone();
                g.tcp = tcp.clone();
                if primary {
                    ctx.event(|| json!({"k":"op","op":"swap_behaviours","https":https,"http":http,"tcp":tcp}));
                }
                outcomes.push(Outcome::Other);
            }
            Step::Query => {
                queries += 1;
                let (bh, bp, bt) = {
                    let g = behaviours.lock().unwrap_or_else(std::sync::PoisonError::into_inner);
                    (g.https.clone(), g.http.clone(), g.tcp.clone())
                };
                let before = net.log_len();
                let t_q = now_ms();
                let res = tokio::time::timeout(Duration::from_secs(600), client.query(&case.endpoint)).await;
                let t_done = now_ms();
                seams::advance_to_at_least(t_start.elapsed().as_nanos() as u64);
                let log: Vec<crate::net::NetEvent> = {
                    let all = net.take_log();
                    all[before.min(all.len())..].to_vec()
                };
                // which endpoints were contacted, in order
                let contacted: Vec<&str> = log
                    .iter()
                    .filter(|e| e.what.starts_with("GET") || e.what.starts_with("connect"))
                    .map(|e| if e.endpoint.starts_with("https://") { "https" } else if e.endpoint.starts_with("http://") { "http" } else { "tcp" })
                    .collect();
                // a hop may be tried more than once before the chain moves on (in-hop retries are not excluded by
                // the property): consecutive contacts of the same hop count as one
                let mut contacted = contacted;
                contacted.dedup();
                // A6: what was asked for must be what the caller asked for
                let tail: Vec<&str> = case.endpoint.rsplit('/').take(2).collect();
                for e in &log {
                    let wrong = if let Some(path) = e.what.strip_prefix("GET ") {
                        !tail.iter().all(|seg| path.contains(seg))
                    } else if let Some(line) = e.what.strip_prefix("request ") {
                        line.trim_matches('"') != case.endpoint
                    } else {
                        false
                    };
                    if wrong {
                        viol!("wrong_request_sent", "", format!("step #{i}: query({:?}) sent '{}' to {}", case.endpoint, e.what, e.endpoint));
                    }
                }
                if contacted.contains(&"tcp") {
                    reached_tcp = true;
                }
                let res = match res {
                    Ok(r) => r,
                    Err(_) => viol!("no_completion", "", format!("step #{i}: query did not complete within 600 s of virtual time (contacted {contacted:?})")),
                };
                let outcome = match &res {
                    Ok(d) => Outcome::Ok(view(d)),
                    Err(e) => Outcome::Err(e.to_string()),
                };
                if primary {
                    ctx.event(|| json!({"k":"op","op":"query","endpoint":case.endpoint,"t_ms":t_q,"took_ms":t_done - t_q,"contacted":contacted,"behaviours":[bh,bp,bt],"ret":short(&outcome)}));
                    for e in &log {
                        ctx.event(|| json!({"k":"net","t_ms":e.at_ms,"endpoint":e.endpoint,"what":e.what}));
                    }
                    ctx.obs(format!("{contacted:?}").as_bytes());
                    ctx.obs(short(&outcome).as_bytes());
                }

                // ---- cache expectations ----
                let fresh = cached.as_ref().is_some_and(|(_, at, _)| t_q + 10_000 < at + ttl_ms);
                let expired = cached.as_ref().is_some_and(|(_, at, _)| t_q >= at + ttl_ms + 10_000);
                if fresh {
                    let (cview, _, generation) = cached.clone().unwrap_or_default();
                    if !contacted.is_empty() {
                        viol!("cache_hit_touched_network", if generation != client_gen { ",by=new_client" } else { "" }, format!("step #{i}: a query {} ms after a successful one (ttl {} s) contacted {contacted:?}", t_q.saturating_sub(cached.as_ref().map(|c| c.1).unwrap_or(0)), ttl_ms / 1000));
                    }
                    match &outcome {
                        Outcome::Ok(v) if *v == cview => {}
                        other => viol!("cached_answer_differs", "", format!("step #{i}: the cached answer is {} but the earlier answer was Ok({} chars)", short(other), cview.len())),
                    }
                    ctx.count("cache_hits_verified");
                    outcomes.push(outcome);
                    continue;
                }
                if expired && contacted.is_empty() {
                    let by_new = cached.as_ref().is_some_and(|(_, _, g)| *g != client_gen);
                    viol!("expired_answer_served", if by_new { ",by=new_client" } else { ",by=same_client" }, format!("step #{i}: a query {} s after the answer was cached (ttl {} s) produced no network traffic: the expired answer was served{}", (t_q - cached.as_ref().map(|c| c.1).unwrap_or(0)) / 1000, ttl_ms / 1000, if by_new { " by a new client on the same cache directory" } else { "" }));
                }
                if cached.is_some() && !fresh && !expired {
                    // within 10 s of the boundary: not judged
                    ctx.count("queries_near_ttl_boundary_not_judged");
                    if contacted.is_empty() {
                        outcomes.push(outcome);
                        continue;
                    }
                }
                if cached.is_none() && contacted.is_empty() {
                    viol!("answer_without_network_or_cache", "", format!("step #{i}: nothing was cached (no earlier success, or a failure) yet the query produced no network traffic and returned {}", short(&outcome)));
                }

                // ---- decision table ----
                // A 200 whose body does not parse is "not a well-formed answer"; whether the chain then stops
                // (a refusal) or moves on (a failure) is not fixed by the property: both readings are accepted.
                let decide = |malformed_is_transient: bool| -> (Vec<&str>, Result<String, ()>, bool, Option<usize>) {
                    let mut expected_contacts: Vec<&str> = Vec::new();
                    let mut verdict: Option<Result<String, ()>> = None; // Ok(view) | Err
                    let mut tcp_partial_possible = false;
                    let mut answered_by: Option<usize> = None;
                    for ep in &chain {
                        expected_contacts.push(ep);
                        match *ep {
                            "https" | "http" => {
                                let (b, doc, idx) = if *ep == "https" { (&bh, &docs[0], 0) } else { (&bp, &docs[1], 1) };
                                let body = http_body(b, doc);
                                let parsed = <BpsvDocument as CascFormat>::parse(&body).ok();
                                let is_200 = matches!(b.as_str(), "ok" | "malformed200" | "empty200");
                                match http_class(b, parsed.is_some()) {
                                    Class::Answer => {
                                        verdict = Some(Ok(parsed.map(|d| view(&d)).unwrap_or_default()));
                                        answered_by = Some(idx);
                                        break;
                                    }
                                    Class::Definitive if is_200 && malformed_is_transient => {}
                                    Class::Definitive => {
                                        verdict = Some(Err(()));
                                        break;
                                    }
                                    Class::Transient => {}
                                }
                            }
                            _ => {
                                let bytes = tcp_bytes(&bt, &docs[2]);
                                match bt.as_str() {
                                    "mime_ok" | "mime_ok_data" | "mime_ok_sig" | "mime_ok_endpoint" => {
                                        let d = cascette_protocol::mime_parser::parse_v1_mime_to_bpsv(&bytes).ok();
                                        verdict = Some(d.map(|d| view(&d)).ok_or(()));
                                        answered_by = Some(2);
                                    }
                                    "v2_ok" | "v2_blank" => {
                                        let d = <BpsvDocument as CascFormat>::parse(&bytes).ok();
                                        verdict = Some(d.map(|d| view(&d)).ok_or(()));
                                        answered_by = Some(2);
                                    }
                                    "close_mid" => {
                                        tcp_partial_possible = true;
                                        verdict = Some(Err(()));
                                    }
                                    _ => verdict = Some(Err(())),
                                }
                            }
                        }
                    }
                    (expected_contacts, verdict.unwrap_or(Err(())), tcp_partial_possible, answered_by)
                };
                if bt == "mime_ok_sig" || bt == "mime_ok_endpoint" {
                    let ok = cascette_protocol::mime_parser::parse_v1_mime_to_bpsv(&tcp_bytes(&bt, &docs[2])).is_ok();
                    ctx.count(if ok { "tcp_mime_with_signature_part_is_an_answer" } else { "tcp_mime_with_signature_part_is_refused_by_the_parser" });
                }
                let strict = decide(false);
                let lenient = decide(true);
                let (expected_contacts, verdict, tcp_partial_possible, answered_by) = if contacted == strict.0 { strict } else if contacted == lenient.0 { lenient } else { strict };
                if contacted != expected_contacts {
                    let class = if contacted.len() > expected_contacts.len() { "fallthrough_after_stop" } else if contacted.len() < expected_contacts.len() { "stopped_before_fallback" } else { "wrong_order" };
                    match class {
                        "fallthrough_after_stop" => viol!("fallthrough_after_stop", "", format!("step #{i}: behaviours https={bh} http={bp} tcp={bt}: contacted {contacted:?}, the decision table says {expected_contacts:?}")),
                        "stopped_before_fallback" => viol!("stopped_before_fallback", "", format!("step #{i}: behaviours https={bh} http={bp} tcp={bt}: contacted {contacted:?}, the decision table says {expected_contacts:?}")),
                        _ => viol!("wrong_order", "", format!("step #{i}: behaviours https={bh} http={bp} tcp={bt}: contacted {contacted:?}, the decision table says {expected_contacts:?}")),
                    }
                }
                // A7: the rows the caller gets are the rows the answering endpoint was given to serve - judged
                // against the GENERATED text with a ten-line splitter, not against the parser under test
                if let (Ok(d), Some(idx)) = (&res, answered_by) {
                    let want = plain_rows(&docs[idx]);
                    let got: Vec<Vec<String>> = d.rows().iter().map(|r| r.raw_values().to_vec()).collect();
                    if got != want {
                        viol!("wrong_document", ",vs=generated_text", format!("step #{i}: behaviours https={bh} http={bp} tcp={bt}: the query returned rows {got:?}, the answering endpoint served {want:?}"));
                    }
                }
                if contacted.len() > 1 {
                    ctx.count("failovers");
                }
                match (&outcome, &verdict) {
                    (Outcome::Ok(v), Ok(e)) if v == e => {
                        cached = Some((v.clone(), t_done, client_gen));
                    }
                    (Outcome::Ok(v), Ok(e)) => {
                        viol!("wrong_document", "", format!("step #{i}: behaviours https={bh} http={bp} tcp={bt}: the query returned a document ({} chars) that differs from the one the answering endpoint served ({} chars)", v.len(), e.len()));
                    }
                    (Outcome::Ok(v), Err(())) => {
                        if tcp_partial_possible {
                            viol!("partial_document_accepted", ",tcp=close_mid", format!("step #{i}: the TCP connection was closed after 2/3 of a V1 MIME response, yet the query returned Ok with a document of {} chars", v.len()));
                        }
                        viol!("ok_without_answer", "", format!("step #{i}: behaviours https={bh} http={bp} tcp={bt}: every permitted endpoint failed or refused, yet the query returned Ok ({} chars)", v.len()));
                    }
                    (Outcome::Err(e), Ok(_)) => {
                        viol!("err_despite_answer", "", format!("step #{i}: behaviours https={bh} http={bp} tcp={bt}: an endpoint served a well-formed answer but the query failed: {e}"));
                    }
                    (Outcome::Err(_), Err(())) => {
                        // a failure must not be cached
                        cached = None;
                    }
                    _ => {}
                }
                outcomes.push(outcome);
            }
        }
    }
    cascette_protocol::verif_hooks::install_net(None);
    cascette_protocol::verif_hooks::install_http(None);
    if primary {
        for (k, v) in net.counters() {
            if k.starts_with("fault:") {
                ctx.faults += v as u32;
            }
            ctx.count_n(&k, v);
        }
        ctx.mutations = queries.max(if reached_tcp { 2 } else { 0 });
        ctx.state(Ctx::hash_of(format!("{}|{}|{}|{}", case.https, case.http, case.tcp, case.endpoint).as_bytes()));
    }
    Ok((outcomes, reached_tcp))
}

//! CDN arm shared by C13 (cache-then-fetch-then-store: only good answers are cached, a cached
//! answer costs no traffic) and C14 (download_with_retry: bounded, ordered, backoff-respecting
//! retries over HTTP status classes). Real `CdnClient` + `ProtocolCache` over the simulated HTTP
//! transport under the virtual clock; the server is a scripted queue of per-request behaviours.
//!
//! Each oracle is owned by one property; a run inside the other property's scenario only counts
//! a foreign oracle that fires (`foreign_oracle:<class>`) and stops judging that run.

use crate::framework::{shrink_vec, Ctx, Violation};
use crate::net::{HttpBehaviour, Network};
use crate::prng::Rng;
use crate::seams;
use cascette_protocol::{CacheConfig, CdnClient, CdnConfig, CdnEndpoint, ContentType, ProtocolError, RetryPolicy};
use serde::{Deserialize, Serialize};
use serde_json::json;
use std::collections::{HashMap, VecDeque};
use std::sync::{Arc, Mutex};
use std::time::Duration;
use tokio::time::Instant;

#[derive(Clone, Debug, Serialize, Deserialize, PartialEq)]
pub enum CdnStep {
    /// download(endpoint, ctype, key): the server answers successive requests with `seq`, then "ok"
    Download { key: u8, ctype: u8, seq: Vec<String> },
    /// download_archive_index(endpoint, key)
    Index { key: u8, seq: Vec<String> },
    Advance { ms: u64 },
    /// a new ProtocolCache + CdnClient; with a disk cache on the same directory
    NewClient,
}

#[derive(Clone, Debug, Serialize, Deserialize)]
pub struct CdnCase {
    /// "memory" | "disk"
    pub cache: String,
    pub path: String,
    /// "" (default https) | "http" | "https"
    pub scheme: String,
    pub seed: u64,
    pub script: Vec<CdnStep>,
}

/// per-request behaviours of the scripted CDN host
pub const BEHAVIOURS: [&str; 26] = ["ok", "500", "502", "503", "504", "501", "507", "599", "429", "429ra1", "429ra7", "429ra0", "429rabad", "429radate", "429rabig", "429raneg", "429rafrac", "400", "403", "404", "410", "refused", "reset", "timeout", "body_reset", "body_stall"];

const RIBBIT_TTL_S: u64 = 200;
const CDN_TTL_S: u64 = 2000;
const CONFIG_TTL_S: u64 = 900;
/// "its time-to-live": the property does not say which configured TTL a CDN object gets; either the CDN
/// or the configuration TTL is accepted
const TTL_MIN_MS: u64 = CONFIG_TTL_S * 1000;
const TTL_MAX_MS: u64 = CDN_TTL_S * 1000;
const MARGIN_MS: u64 = 10_000;

const RESPOND_DELAY_MS: u64 = 12;
const RESET_DELAY_MS: u64 = 20;
const CLIENT_TIMEOUT_MS: u64 = 45_000;
const BODY_RESET_MS: u64 = 15;
const BODY_STALL_MS: u64 = 30_000;

pub fn generate(rng: &mut Rng) -> CdnCase {
    let nsteps = rng.range(1, 7) as usize;
    let mut script = Vec::new();
    let gen_seq = |rng: &mut Rng| -> Vec<String> {
        match rng.below(10) {
            0..=2 => vec![],
            3..=5 => {
                // a run of transient failures (the retry path), sometimes ended by a refusal
                let n = rng.range(1, 5) as usize;
                let transient: Vec<&str> = BEHAVIOURS.iter().copied().filter(|b| !matches!(*b, "ok" | "400" | "403" | "404" | "410")).collect();
                let mut s: Vec<String> = (0..n).map(|_| (*rng.pick(&transient)).to_string()).collect();
                if rng.chance(1, 4) {
                    s.push((*rng.pick(&["400", "403", "404", "410"])).to_string());
                }
                s
            }
            _ => {
                let n = rng.range(1, 6) as usize;
                (0..n).map(|_| (*rng.pick(&BEHAVIOURS)).to_string()).collect()
            }
        }
    };
    for i in 0..nsteps {
        let st = if i == 0 {
            0
        } else {
            rng.below(100)
        };
        script.push(match st {
            0..=54 => CdnStep::Download { key: rng.below(3) as u8, ctype: rng.below(3) as u8, seq: gen_seq(rng) },
            55..=64 => CdnStep::Index { key: rng.below(2) as u8, seq: gen_seq(rng) },
            65..=89 => CdnStep::Advance { ms: 1000 * *rng.pick(&[1u64, 30, 450, 885, 915, 1500, 2100, 4000]) },
            _ => CdnStep::NewClient,
        });
    }
    CdnCase {
        cache: (*rng.pick(&["memory", "memory", "disk"])).to_string(),
        path: (*rng.pick(&["tpr/wow", "tpr/wow/", "tpr/configs/data", "tpr/wow//"])).to_string(),
        scheme: (*rng.pick(&["", "http", "https"])).to_string(),
        seed: rng.next_u64(),
        script,
    }
}

pub fn shrink(case: &CdnCase) -> Vec<CdnCase> {
    let mut out = Vec::new();
    for s in shrink_vec(&case.script) {
        if !s.is_empty() {
            out.push(CdnCase { script: s, ..case.clone() });
        }
    }
    // shorter behaviour sequences
    for (i, st) in case.script.iter().enumerate() {
        let seq = match st {
            CdnStep::Download { seq, .. } | CdnStep::Index { seq, .. } => seq,
            _ => continue,
        };
        for j in 0..seq.len() {
            let mut t = seq.clone();
            t.remove(j);
            let mut sc = case.script.clone();
            sc[i] = match st {
                CdnStep::Download { key, ctype, .. } => CdnStep::Download { key: *key, ctype: *ctype, seq: t },
                CdnStep::Index { key, .. } => CdnStep::Index { key: *key, seq: t },
                other => other.clone(),
            };
            out.push(CdnCase { script: sc, ..case.clone() });
        }
    }
    if case.cache != "memory" {
        out.push(CdnCase { cache: "memory".into(), ..case.clone() });
    }
    if case.path != "tpr/wow" {
        out.push(CdnCase { path: "tpr/wow".into(), ..case.clone() });
    }
    if !case.scheme.is_empty() {
        out.push(CdnCase { scheme: String::new(), ..case.clone() });
    }
    out
}

fn key_bytes(seed: u64, k: u8) -> [u8; 16] {
    let mut r = Rng::new(seed ^ (u64::from(k) + 1).wrapping_mul(0x51ED_2701));
    let mut b = [0u8; 16];
    r.fill(&mut b);
    b
}

/// What the CDN serves at a path: seeded bytes, a different object for every path.
fn content_of(seed: u64, path: &str) -> Vec<u8> {
    let h = Ctx::hash_of(path.as_bytes());
    let mut r = Rng::new(seed ^ h);
    let len = *r.pick(&[0usize, 1, 17, 300, 4096, 70_000]);
    let mut v = vec![0u8; len];
    r.fill(&mut v);
    // the path's hash in front (when there is room) so that two objects of the same length differ visibly
    for (i, b) in h.to_le_bytes().iter().enumerate() {
        if i < v.len() {
            v[i] = *b;
        }
    }
    v
}

#[derive(Clone, Debug)]
struct Req {
    at: Instant,
    path: String,
    behaviour: String,
}

#[derive(Default)]
struct Server {
    queue: VecDeque<String>,
    reqs: Vec<Req>,
}

#[derive(Clone, Copy, PartialEq, Debug)]
enum Class {
    Success,
    /// retryable; Some(hint) when the failure carries a Retry-After
    Transient(Option<Duration>),
    Definitive,
    /// the body broke off: retryable or not is asked of reqwest's error, both are accepted
    BrokenBody,
}

fn class_of(b: &str) -> Class {
    match b {
        "ok" => Class::Success,
        "429ra1" => Class::Transient(Some(Duration::from_secs(1))),
        "429ra7" => Class::Transient(Some(Duration::from_secs(7))),
        "429ra0" => Class::Transient(Some(Duration::ZERO)),
        // (a Retry-After that is not a whole number of seconds - a word, an HTTP date, a number that does not fit
        // 64 bits, a negative or fractional one - is no hint: the computed back-off applies)
        "429" | "429rabad" | "429radate" | "429rabig" | "429raneg" | "429rafrac" | "refused" | "reset" | "timeout" => Class::Transient(None),
        "body_reset" | "body_stall" => Class::BrokenBody,
        other => match other.parse::<u16>() {
            Ok(c) if (500..600).contains(&c) => Class::Transient(None),
            _ => Class::Definitive,
        },
    }
}

/// virtual time between the arrival of a request and the moment the client sees it fail
fn fail_after(b: &str) -> Duration {
    Duration::from_millis(match b {
        "refused" => 0,
        "reset" => RESET_DELAY_MS,
        "timeout" => CLIENT_TIMEOUT_MS,
        "body_reset" => RESPOND_DELAY_MS + BODY_RESET_MS,
        "body_stall" => RESPOND_DELAY_MS + BODY_STALL_MS,
        _ => RESPOND_DELAY_MS,
    })
}

fn err_variant(e: &ProtocolError) -> String {
    match e {
        ProtocolError::Network(_) => "Network".into(),
        ProtocolError::RateLimited { .. } => "RateLimited".into(),
        ProtocolError::HttpStatus(s) => format!("HttpStatus({})", s.as_u16()),
        ProtocolError::ServerError(s) => format!("ServerError({})", s.as_u16()),
        ProtocolError::Timeout => "Timeout".into(),
        ProtocolError::Http(_) => "Http".into(),
        other => format!("{other:?}").chars().take(40).collect(),
    }
}

/// The error variant the last attempt's behaviour produces in download_with_retry's mapping.
fn expected_variant(b: &str) -> Option<String> {
    Some(match b {
        "refused" | "reset" => "Network".into(),
        "timeout" => "Timeout".into(),
        "body_reset" | "body_stall" => return None,
        s if s.starts_with("429") => "RateLimited".into(),
        s => match s.parse::<u16>() {
            Ok(c) if (500..600).contains(&c) => format!("ServerError({c})"),
            Ok(c) => format!("HttpStatus({c})"),
            Err(_) => return None,
        },
    })
}

fn install(net: &Network, srv: &Arc<Mutex<Server>>, seed: u64) {
    for host in ["https://sim-cdn.test", "http://sim-cdn.test"] {
        let srv = srv.clone();
        let net2 = net.clone();
        net.script_http(
            host,
            Arc::new(move |_host: String, path: String| {
                let b = {
                    let mut g = srv.lock().unwrap_or_else(std::sync::PoisonError::into_inner);
                    let b = g.queue.pop_front().unwrap_or_else(|| "ok".to_string());
                    g.reqs.push(Req { at: Instant::now(), path: path.clone(), behaviour: b.clone() });
                    b
                };
                let net3 = net2.clone();
                Box::pin(async move {
                    let body = content_of(seed, &path);
                    let status: u16 = match b.as_str() {
                        "ok" => 200,
                        "refused" => return HttpBehaviour::Refused,
                        "reset" => return HttpBehaviour::Reset { delay_ms: RESET_DELAY_MS },
                        "timeout" => return HttpBehaviour::TimeoutAfter { ms: CLIENT_TIMEOUT_MS },
                        "body_reset" | "body_stall" => {
                            let cut = body.len() / 2;
                            return HttpBehaviour::BrokenBody { status: 200, prefix: body[..cut].to_vec(), stall: b == "body_stall", delay_ms: RESPOND_DELAY_MS };
                        }
                        s if s.starts_with("429") => 429,
                        s => s.parse().unwrap_or(500),
                    };
                    if status != 200 {
                        net3.count(&format!("fault:http_{status}"));
                    }
                    let mut headers = vec![];
                    match b.as_str() {
                        "429ra1" => headers.push(("Retry-After".to_string(), "1".to_string())),
                        "429ra7" => headers.push(("Retry-After".to_string(), "7".to_string())),
                        "429ra0" => headers.push(("Retry-After".to_string(), "0".to_string())),
                        "429rabad" => headers.push(("Retry-After".to_string(), "soon".to_string())),
                        "429radate" => headers.push(("Retry-After".to_string(), "Wed, 21 Oct 2026 07:28:00 GMT".to_string())),
                        "429rabig" => headers.push(("Retry-After".to_string(), "18446744073709551616".to_string())),
                        "429raneg" => headers.push(("Retry-After".to_string(), "-1".to_string())),
                        "429rafrac" => headers.push(("Retry-After".to_string(), "1.5".to_string())),
                        _ => {}
                    }
                    let body = if status == 200 { body } else { b"error".to_vec() };
                    HttpBehaviour::Respond { status, headers, body, delay_ms: RESPOND_DELAY_MS }
                })
            }),
        );
    }
}

/// Process-wide singletons of the protocol crate (the shared reqwest client, the protocol cache's helper
/// runtime) are created by whichever call needs them first and draw entropy while they are: created here,
/// once per process and outside every run, they cost no run anything.
pub fn process_init() {
    let _ = cascette_protocol::HttpClient::new();
    if let Ok(c) = cascette_protocol::cache::ProtocolCache::new(&CacheConfig::default()) {
        let _ = c.get("warm-up");
    }
}

/// Which property's scenario is running the arm.
#[derive(Clone, Copy, PartialEq)]
pub enum Owner {
    C13,
    C14,
    /// stated by both properties (C13: "returns the first well-formed answer; fails only if ...", C14: "stops
    /// at the first success ... and returns that result"): reported under whichever scenario runs the arm
    Both,
}

#[allow(clippy::too_many_lines)]
pub async fn run(case: &CdnCase, ctx: &mut Ctx, me: Owner) -> Option<Violation> {
    ctx.obs(serde_json::to_string(case).unwrap_or_default().as_bytes());
    // The jitter comes from this thread's rand::rng(), which seeds itself from the entropy seam at first use.
    // Helper threads of the protocol cache (a pool that persists across runs) draw from the same seam whenever
    // one of them is new, so the position of that first use is not a function of the case: seed the generator
    // here, from a fixed position of the run's entropy stream.
    seams::entropy_rewind(1 << 40);
    let _: u32 = rand::RngExt::random(&mut rand::rng());
    let t_start = Instant::now();
    let ticker = tokio::spawn(async move {
        loop {
            tokio::time::sleep(Duration::from_millis(10)).await;
            seams::advance_to_at_least(t_start.elapsed().as_nanos() as u64);
        }
    });
    let net = Network::new(case.seed);
    let srv = Arc::new(Mutex::new(Server::default()));
    install(&net, &srv, case.seed);
    cascette_protocol::verif_hooks::install_http(Some(Arc::new(net.clone())));
    let res = futures::FutureExt::catch_unwind(std::panic::AssertUnwindSafe(script(case, ctx, me, &net, &srv, t_start))).await;
    cascette_protocol::verif_hooks::install_http(None);
    ticker.abort();
    for (k, v) in net.counters() {
        if k.starts_with("fault:") {
            ctx.faults += v as u32;
        }
        ctx.count_n(&format!("cdn:{k}"), v);
    }
    ctx.count_n("tokio_virtual_ms", t_start.elapsed().as_millis() as u64);
    let (prop, who) = match me {
        Owner::C14 => ("C14", "retry"),
        _ => ("C13", "failover"),
    };
    match res {
        Ok(v) => v,
        Err(_) => {
            let (loc, msg) = crate::framework::take_panic().unwrap_or_default();
            if !crate::framework::panic_in_sut(&loc) {
                panic!("harness panic at {loc}: {msg}");
            }
            Some(Violation::new(&format!("{prop}.cdn_panic"), "cdn_panic", format!("{prop}/{who}/cdn_panic"), format!("CdnClient panicked at {loc}: {msg}")))
        }
    }
}

#[allow(clippy::too_many_lines)]
async fn script(case: &CdnCase, ctx: &mut Ctx, me: Owner, net: &Network, srv: &Arc<Mutex<Server>>, t_start: Instant) -> Option<Violation> {
    let cache_dir = ctx.root.join("cdncache");
    let mk = || -> Result<CdnClient, String> {
        let cc = CacheConfig {
            cache_dir: if case.cache == "disk" { Some(cache_dir.clone()) } else { None },
            ribbit_ttl: Duration::from_secs(RIBBIT_TTL_S),
            cdn_ttl: Duration::from_secs(CDN_TTL_S),
            config_ttl: Duration::from_secs(CONFIG_TTL_S),
            ..CacheConfig::default()
        };
        let cache = cascette_protocol::cache::ProtocolCache::new(&cc).map_err(|e| e.to_string())?;
        CdnClient::new(Arc::new(cache), CdnConfig::default()).map_err(|e| e.to_string())
    };
    let mut client = match mk() {
        Ok(c) => c,
        Err(e) => panic!("harness: cannot build CdnClient: {e}"),
    };
    let endpoint = CdnEndpoint { host: "sim-cdn.test".into(), path: case.path.clone(), product_path: None, scheme: if case.scheme.is_empty() { None } else { Some(case.scheme.clone()) }, is_fallback: false, strict: false, max_hosts: None };
    let policy = RetryPolicy::default();
    let now_ms = || t_start.elapsed().as_millis() as u64;
    let (prop, who) = match me {
        Owner::C14 => ("C14", "retry"),
        _ => ("C13", "failover"),
    };
    // model of the cache: URL path -> (bytes, stored at ms, client generation)
    let mut cached: HashMap<String, (Vec<u8>, u64, u32)> = HashMap::new();
    let mut client_gen = 0u32;
    let mut downloads = 0u32;
    let mut retried = false;

    // a violation owned by `$owner`; in the other property's scenario it is counted and ends the judging
    macro_rules! viol {
        ($owner:expr, $class:expr, $extra:expr, $detail:expr) => {{
            if $owner == me || $owner == Owner::Both {
                return Some(Violation::new(&format!("{prop}.{}", $class), $class, format!("{prop}/{who}/{}{}", $class, $extra), $detail));
            }
            ctx.count(&format!("foreign_oracle:{}", $class));
            return None;
        }};
    }

    for (i, step) in case.script.iter().enumerate() {
        let (url_path, seq, what) = match step {
            CdnStep::Advance { ms } => {
                super::advance_both(Duration::from_millis(*ms)).await;
                ctx.event(|| json!({"k":"clock","advance_ms":ms,"t_ms":now_ms()}));
                continue;
            }
            CdnStep::NewClient => {
                drop(client);
                client = match mk() {
                    Ok(c) => c,
                    Err(e) => viol!(Owner::C13, "cdn_new_client_failed", "", format!("step #{i}: creating a new CDN client on the same cache directory failed: {e}")),
                };
                client_gen += 1;
                if case.cache != "disk" {
                    cached.clear();
                }
                ctx.event(|| json!({"k":"op","op":"new_client","cache":case.cache}));
                continue;
            }
            CdnStep::Download { key, ctype, seq } => {
                let k = hex::encode(key_bytes(case.seed, *key));
                let ct = ["config", "data", "patch"][*ctype as usize % 3];
                (format!("/{}/{ct}/{}/{}/{k}", case.path.trim_end_matches('/'), &k[..2], &k[2..4]), seq, format!("download({ct}, key#{key})"))
            }
            CdnStep::Index { key, seq } => {
                let k = hex::encode(key_bytes(case.seed, *key));
                (format!("/{}/data/{}/{}/{k}.index", case.path.trim_end_matches('/'), &k[..2], &k[2..4]), seq, format!("download_archive_index(key#{key})"))
            }
        };
        downloads += 1;
        {
            let mut g = srv.lock().unwrap_or_else(std::sync::PoisonError::into_inner);
            g.queue = seq.iter().cloned().collect();
            g.reqs.clear();
        }
        let t_q = now_ms();
        let fut = async {
            match step {
                CdnStep::Download { key, ctype, .. } => {
                    let ct = [ContentType::Config, ContentType::Data, ContentType::Patch][*ctype as usize % 3];
                    client.download(&endpoint, ct, &key_bytes(case.seed, *key)).await
                }
                CdnStep::Index { key, .. } => client.download_archive_index(&endpoint, &hex::encode(key_bytes(case.seed, *key))).await,
                _ => unreachable!(),
            }
        };
        let res = tokio::time::timeout(Duration::from_secs(900), fut).await;
        let t_done = now_ms();
        seams::advance_to_at_least(t_start.elapsed().as_nanos() as u64);
        let reqs: Vec<Req> = srv.lock().unwrap_or_else(std::sync::PoisonError::into_inner).reqs.clone();
        let _ = net.take_log();
        let served = content_of(case.seed, &url_path);
        let beh: Vec<&str> = reqs.iter().map(|r| r.behaviour.as_str()).collect();
        let short = |r: &Result<Vec<u8>, ProtocolError>| match r {
            Ok(b) => format!("Ok({} bytes)", b.len()),
            Err(e) => format!("Err({})", e.to_string().chars().take(80).collect::<String>()),
        };
        let res = match res {
            Ok(r) => r,
            Err(_) => viol!(Owner::C14, "cdn_no_completion", "", format!("step #{i}: {what} with server behaviours {seq:?} did not complete within 900 s of virtual time ({} requests so far)", reqs.len())),
        };
        ctx.event(|| json!({"k":"op","op":what,"t_ms":t_q,"took_ms":t_done - t_q,"requests":reqs.iter().map(|r| json!({"t_ms":(r.at - t_start).as_millis() as u64,"path":r.path,"behaviour":r.behaviour})).collect::<Vec<_>>(),"ret":short(&res)}));
        ctx.obs(format!("{beh:?}").as_bytes());
        ctx.obs(short(&res).as_bytes());
        for r in &reqs {
            if r.behaviour != "ok" {
                ctx.fault(&format!("cdn:{}", r.behaviour));
            }
        }
        // ---- every request asks for the object the caller named ----
        if let Some(r) = reqs.iter().find(|r| r.path != url_path) {
            viol!(Owner::C13, "cdn_wrong_request_sent", "", format!("step #{i}: {what} on path {:?} requested {:?}, expected {url_path:?}", case.path, r.path));
        }

        // ---- cache expectations (C13) ----
        let entry = cached.get(&url_path).cloned();
        let fresh = entry.as_ref().is_some_and(|(_, at, _)| t_q + MARGIN_MS < at + TTL_MIN_MS);
        let expired = entry.as_ref().is_some_and(|(_, at, _)| t_q >= at + TTL_MAX_MS + MARGIN_MS);
        if fresh {
            let (bytes, at, generation) = entry.clone().unwrap_or_default();
            let by = if generation != client_gen { ",by=new_client" } else { "" };
            if !reqs.is_empty() {
                viol!(Owner::C13, "cdn_cache_hit_touched_network", by, format!("step #{i}: {what} {} ms after a successful download of the same object (ttl >= {} s) sent {} request(s)", t_q - at, TTL_MIN_MS / 1000, reqs.len()));
            }
            match &res {
                Ok(b) if *b == bytes => {}
                other => viol!(Owner::C13, "cdn_cached_answer_differs", by, format!("step #{i}: {what} served from the cache returned {}, the download had returned {} bytes", short(other), bytes.len())),
            }
            ctx.count("cdn_cache_hits_verified");
            continue;
        }
        if expired && reqs.is_empty() {
            let by_new = entry.as_ref().is_some_and(|(_, _, g)| *g != client_gen);
            viol!(Owner::C13, "cdn_expired_answer_served", if by_new { ",by=new_client" } else { ",by=same_client" }, format!("step #{i}: {what} {} s after the object was cached (largest configured ttl {} s) produced no request: the expired entry was served", (t_q - entry.as_ref().map_or(0, |e| e.1)) / 1000, TTL_MAX_MS / 1000));
        }
        if entry.is_some() && !fresh && !expired {
            ctx.count("cdn_downloads_between_ttls_not_judged_for_caching");
            if reqs.is_empty() {
                // served from the cache: must still be the bytes that were stored
                if let (Ok(b), Some((bytes, _, _))) = (&res, &entry) {
                    if b != bytes {
                        viol!(Owner::C13, "cdn_cached_answer_differs", "", format!("step #{i}: {what} served from the cache returned {} bytes, the download had returned {} bytes", b.len(), bytes.len()));
                    }
                }
                continue;
            }
        }
        if entry.is_none() && reqs.is_empty() {
            viol!(Owner::C13, "cdn_answer_without_network_or_cache", "", format!("step #{i}: nothing is cached for this object (no earlier successful download, or a failed one) yet {what} sent no request and returned {}", short(&res)));
        }

        // ---- retry decision (C14): walk the behaviours ----
        // strict: a broken body is retryable; lenient: it is definitive
        let max_total = policy.max_attempts as usize + 1;
        let walk = |body_retryable: bool| -> (usize, Option<&str>) {
            // (number of requests, behaviour of the last one)
            let mut n = 0usize;
            let mut last = None;
            for k in 0..max_total {
                let b = seq.get(k).map_or("ok", String::as_str);
                n = k + 1;
                last = Some(b);
                match class_of(b) {
                    Class::Success | Class::Definitive => break,
                    Class::BrokenBody if !body_retryable => break,
                    _ => {}
                }
            }
            (n, last)
        };
        let strict = walk(true);
        let lenient = walk(false);
        let (exp_n, exp_last) = if reqs.len() == lenient.0 && reqs.len() != strict.0 { lenient } else { strict };
        let exp_last = exp_last.unwrap_or("ok");
        if reqs.len() > max_total {
            viol!(Owner::C14, "cdn_too_many_attempts", "", format!("step #{i}: {what} with server behaviours {seq:?} sent {} requests, more than max_attempts + 1 = {max_total}", reqs.len()));
        }
        if reqs.len() != exp_n {
            let extra = if reqs.len() < exp_n { ",stopped_early" } else { ",continued_after_terminal" };
            viol!(Owner::C14, "cdn_wrong_attempt_count", extra, format!("step #{i}: {what} with server behaviours {seq:?} sent {} request(s) (saw {beh:?}); it must stop at the first success or definitive refusal or after {} retries: expected {exp_n}", reqs.len(), policy.max_attempts));
        }
        if reqs.len() >= 2 {
            retried = true;
            ctx.count("cdn_downloads_retried");
        }
        // ---- waits between attempts (C14) ----
        let cap = policy.max_backoff.as_secs_f64();
        let mut b_all = policy.initial_backoff.as_secs_f64();
        let mut b_nohint = b_all;
        let ms = 0.001;
        for (k, w) in reqs.windows(2).enumerate() {
            let failed_at = w[0].at + fail_after(&w[0].behaviour);
            let wait = w[1].at.saturating_duration_since(failed_at);
            let gs = wait.as_secs_f64();
            ctx.count("cdn_gaps_measured");
            ctx.obs_u64(wait.as_nanos() as u64);
            let hint = match class_of(&w[0].behaviour) {
                Class::Transient(h) => h.filter(|h| !(h.is_zero() && gs > 2.0 * ms)),
                _ => None,
            };
            if w[1].at < failed_at {
                viol!(Owner::C14, "cdn_retry_before_failure", "", format!("step #{i}: request #{} was sent {:?} before request #{} had failed", k + 2, failed_at - w[1].at, k + 1));
            }
            if let Some(h) = hint {
                let x = h.as_secs_f64();
                let hi = if policy.jitter { x * 1.3 + 2.0 * ms } else { x + ms };
                if gs + 1e-9 < x || gs > hi + 1e-9 {
                    viol!(Owner::C14, "cdn_hint_not_respected", "", format!("step #{i}: the wait before request #{} was {wait:?}; the failed request was answered 429 with Retry-After {h:?} (allowed [{x}s, {hi}s])", k + 2));
                }
            } else {
                let hi_cap = if policy.jitter { cap * 1.3 + 2.0 * ms } else { cap + ms };
                if gs > hi_cap + 1e-9 {
                    viol!(Owner::C14, "cdn_delay_exceeds_max_backoff", "", format!("step #{i}: the wait before request #{} was {wait:?}, more than max_backoff {:?} (+30% jitter)", k + 2, policy.max_backoff));
                }
                let fits = |x: f64| -> bool {
                    let x = x.min(cap);
                    let tol = x * 1e-6 + 1e-9;
                    let hi = if policy.jitter { x * 1.3 + 2.0 * ms } else { x + ms };
                    gs + tol >= x && gs <= hi + tol
                };
                if !fits(b_all) && !fits(b_nohint) {
                    viol!(Owner::C14, "cdn_wrong_backoff", "", format!("step #{i}: the wait before request #{} (after '{}') was {wait:?}; exponential backoff from {:?} x{} gives {}s or {}s (+30% jitter)", k + 2, w[0].behaviour, policy.initial_backoff, policy.multiplier, b_all.min(cap), b_nohint.min(cap)));
                }
                b_nohint *= policy.multiplier;
            }
            b_all *= policy.multiplier;
        }
        // ---- the result ----
        match (&res, class_of(exp_last)) {
            (Ok(b), Class::Success) => {
                if *b != served {
                    let truncated = b.len() < served.len() && served.starts_with(b) && beh.iter().any(|x| x.starts_with("body_"));
                    if truncated {
                        viol!(Owner::C13, "cdn_truncated_body_accepted", "", format!("step #{i}: {what}: the connection broke after {} of {} body bytes, yet the download returned Ok with {} bytes", served.len() / 2, served.len(), b.len()));
                    }
                    viol!(Owner::C13, "cdn_wrong_bytes", "", format!("step #{i}: {what} returned {} bytes that differ from the {} bytes the CDN served at {url_path}", b.len(), served.len()));
                }
                cached.insert(url_path.clone(), (b.clone(), t_done, client_gen));
            }
            (Ok(b), _) => {
                let truncated = beh.last().is_some_and(|x| x.starts_with("body_"));
                if truncated {
                    viol!(Owner::C13, "cdn_truncated_body_accepted", "", format!("step #{i}: {what}: the last request's body broke off after {} of {} bytes, yet the download returned Ok with {} bytes", served.len() / 2, served.len(), b.len()));
                }
                viol!(Owner::Both, "cdn_ok_without_answer", "", format!("step #{i}: {what} with server behaviours {seq:?}: no request was answered successfully (saw {beh:?}), yet the download returned Ok ({} bytes)", b.len()));
            }
            (Err(e), Class::Success) => {
                viol!(Owner::Both, "cdn_err_despite_answer", "", format!("step #{i}: {what} with server behaviours {seq:?}: request #{exp_n} was answered 200 with the object, but the download failed: {e}"));
            }
            (Err(e), _) => {
                if let Some(want) = expected_variant(exp_last) {
                    let got = err_variant(e);
                    if got != want {
                        viol!(Owner::C14, "cdn_wrong_result", "", format!("step #{i}: {what} with server behaviours {seq:?} returned {got} ({e}); the last attempt (#{exp_n}, '{exp_last}') fails with {want}"));
                    }
                }
                // a failure must not be cached (and must not evict nothing either: the entry, if any, was
                // expired or between the TTLs, so it may or may not still be there)
                cached.remove(&url_path);
                ctx.count("cdn_failed_downloads");
            }
        }
    }
    ctx.mutations = ctx.mutations.max(downloads.max(if retried { 2 } else { 0 }));
    ctx.state(Ctx::hash_of(format!("cdn|{}|{}|{}", case.cache, case.path, case.script.len()).as_bytes()));
    None
}

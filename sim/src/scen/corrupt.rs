//! C07 — integrity checks reject every corruption of what they protect.
//!
//! Artifacts are produced by the real writers, corrupted (every single-bit flip, byte
//! substitutions, truncations, extensions inside the region the checksum is defined
//! over), and loaded by the real readers. For the validating caches: seeded sequences
//! of put / corrupt-or-delete the backing file / validating get.

use crate::framework::{shrink_vec, Ctx, Scenario, Tier, Violation};
use crate::prng::Rng;
use bytes::Bytes;
use cascette_cache::config::{DiskCacheConfig, MemoryCacheConfig, MultiLayerCacheConfig};
use cascette_cache::key::{BlteBlockKey, CacheKey, ContentCacheKey};
use cascette_cache::ngdp::ContentAddressedCache;
use cascette_cache::validation::{Md5ValidationHooks, NgdpValidationHooks};
use cascette_cache::{DiskCache, MultiLayerCacheImpl};
use cascette_client_storage::index::update::UpdateEntry;
use cascette_client_storage::index::{ArchiveLocation, UpdateStatus};
use cascette_client_storage::kmt::key_state::{ResidencyEntry, ResidencySpan, ResidencyUpdateType};
use cascette_client_storage::lru::lru_file::{self, LruFileEntry, LruFileHeader, LRU_SENTINEL};
use cascette_client_storage::storage::local_header::LocalHeader;
use cascette_crypto::{ContentKey, EncodingKey};
use cascette_formats::archive::{ArchiveIndex, ArchiveIndexBuilder};
use cascette_formats::encoding::{CKeyEntryData, EKeyEntryData, EncodingBuilder, EncodingFile};
use serde::{Deserialize, Serialize};
use serde_json::json;
use std::sync::Arc;

pub struct Corrupt;

#[derive(Clone, Debug, Serialize, Deserialize, PartialEq)]
pub enum COp {
    /// put_validated / put_with_validation of value #v under its true content key
    Put { v: usize },
    /// put value #v under the content key of value #w (must be refused)
    PutWrongKey { v: usize, w: usize },
    /// flip one bit / substitute / truncate / extend the backing file of value #v (disk layer)
    CorruptFile { v: usize, how: u8, pos: u32 },
    DeleteFile { v: usize },
    /// write a file at the backing path of value #v whether or not #v was ever put: the bytes of value #w (another
    /// key's content), garbage, or nothing (an empty file) - a file nobody in the run stored under that key
    PlantFile { v: usize, w: usize, what: u8 },
    /// validating read of value #v
    Get { v: usize },
    /// validating read twice in a row
    GetTwice { v: usize },
}

#[derive(Clone, Debug, Serialize, Deserialize)]
pub struct Case {
    /// encoding | archive_index | lru_file | update_entry | residency_entry | local_header | mime_v1 | ca_cache | ml_cache
    pub kind: String,
    /// artifact generation seed / size knobs
    pub aseed: u64,
    pub n: u32,
    /// cache sequences
    pub ops: Vec<COp>,
    /// restrict the enumeration to corruption #only (set by the minimiser)
    pub only: Option<u64>,
}

enum Verdict {
    Refused,
    Same,
    Different(String),
}

struct Artifact {
    bytes: Vec<u8>,
    /// byte ranges covered by a checksum (by the checksum's own definition), incl. the checksum itself
    protected: Vec<std::ops::Range<usize>>,
    /// whole artifact is protected => extensions must be refused too
    whole: bool,
    fixed_size: bool,
    check: Box<dyn Fn(&[u8]) -> Verdict>,
}

fn root_of_loads(file: &std::path::Path) -> std::path::PathBuf {
    file.parent().and_then(|p| p.parent()).map(|p| p.join("idxloads")).unwrap_or_else(|| std::path::PathBuf::from("idxloads"))
}

fn key16(rng: &mut Rng) -> [u8; 16] {
    let mut k = [0u8; 16];
    rng.fill(&mut k);
    k[0] |= 1;
    k
}

fn build_artifact(kind: &str, aseed: u64, n: u32, root: &std::path::Path) -> Result<Artifact, String> {
    let mut rng = Rng::new(aseed);
    match kind {
        "encoding" => {
            // page sizes (in KiB) for the two tables, 1-40 entries or - one instance in five - up to 200 (several pages of
            // each table), one content key in five with two or three encoding keys
            let (cp, ep) = [(1u16, 1u16), (4, 4), (1, 4), (2, 1)][(n / 7 % 4) as usize];
            let mut b = EncodingBuilder::new().with_page_sizes(cp, ep);
            let cnt = if n % 5 == 0 { (n / 5 % 200 + 1) as usize } else { (n % 40 + 1) as usize };
            for i in 0..cnt {
                let ck = ContentKey::from_bytes(key16(&mut rng));
                let nek = if rng.chance(1, 5) { rng.range(2, 3) as usize } else { 1 };
                let eks: Vec<EncodingKey> = (0..nek).map(|_| EncodingKey::from_bytes(key16(&mut rng))).collect();
                b.add_ckey_entry(CKeyEntryData { content_key: ck, file_size: 1000 + i as u64, encoding_keys: eks.clone() });
                for (j, ek) in eks.into_iter().enumerate() {
                    b.add_ekey_entry(EKeyEntryData { encoding_key: ek, espec: if (i + j) % 2 == 0 { "z".into() } else { "n".into() }, file_size: 900 + i as u64 });
                }
            }
            let file = b.build().map_err(|e| format!("EncodingBuilder::build: {e}"))?;
            let bytes = file.build().map_err(|e| format!("EncodingFile::build: {e}"))?;
            let h = &file.header;
            let hdr = 22usize;
            let espec = h.espec_block_size as usize;
            let cps = h.ckey_page_size();
            let eps = h.ekey_page_size();
            let cidx = hdr + espec;
            let cpages = cidx + 32 * h.ckey_page_count as usize;
            let eidx = cpages + cps * h.ckey_page_count as usize;
            let epages = eidx + 32 * h.ekey_page_count as usize;
            let end = epages + eps * h.ekey_page_count as usize;
            if end > bytes.len() {
                return Err(format!("harness: encoding layout computed end {end} > len {}", bytes.len()));
            }
            let view = |f: &EncodingFile| format!("{:?}|{:?}", f.ckey_pages.iter().map(|p| &p.entries).collect::<Vec<_>>(), f.ekey_pages.iter().map(|p| &p.entries).collect::<Vec<_>>());
            let orig = view(&file);
            Ok(Artifact {
                bytes,
                // pages (hashed) and the index entries' 16-byte page MD5s
                protected: {
                    // each 32-byte index entry = 16-byte first key + 16-byte MD5 of its page: the MD5 itself too
                    let mut v = vec![cpages..eidx, epages..end];
                    for i in 0..h.ckey_page_count as usize {
                        v.push(cidx + 32 * i + 16..cidx + 32 * i + 32);
                    }
                    for i in 0..h.ekey_page_count as usize {
                        v.push(eidx + 32 * i + 16..eidx + 32 * i + 32);
                    }
                    v
                },
                whole: false,
                fixed_size: false,
                check: Box::new(move |b| match EncodingFile::parse(b) {
                    Err(_) => Verdict::Refused,
                    Ok(f) => {
                        if view(&f) == orig { Verdict::Same } else { Verdict::Different("the parsed page entries differ from the original".into()) }
                    }
                }),
            })
        }
        "archive_index" => {
            let mut b = ArchiveIndexBuilder::new();
            let cnt = (n % 300 + 1) as usize;
            for i in 0..cnt {
                b.add_entry_full(key16(&mut rng), 100 + i as u32, (i as u64) * 4096);
            }
            let mut buf = std::io::Cursor::new(Vec::new());
            let idx = b.build(&mut buf).map_err(|e| format!("ArchiveIndexBuilder::build: {e}"))?;
            let bytes = buf.into_inner();
            let len = bytes.len();
            let orig = format!("{:?}|{:?}", idx.footer, idx.entries.len());
            let orig_entries = format!("{:?}", idx.entries);
            Ok(Artifact {
                bytes,
                // footer fields (12 bytes) + footer hash (8 bytes)
                protected: vec![len - 20..len],
                whole: false,
                fixed_size: false,
                check: Box::new(move |b| match ArchiveIndex::parse(std::io::Cursor::new(b)) {
                    Err(_) => Verdict::Refused,
                    Ok(i) => {
                        if format!("{:?}|{:?}", i.footer, i.entries.len()) == orig && format!("{:?}", i.entries) == orig_entries {
                            Verdict::Same
                        } else {
                            Verdict::Different(format!("accepted with footer {:?} and {} entries", i.footer, i.entries.len()))
                        }
                    }
                }),
            })
        }
        "lru_file" => {
            let cnt = (n % 12) as usize;
            let mut entries = Vec::new();
            for i in 0..cnt {
                let mut ek = [0u8; 9];
                rng.fill(&mut ek);
                ek[0] |= 1;
                entries.push(LruFileEntry { prev: if i == 0 { LRU_SENTINEL } else { i as u32 - 1 }, next: if i + 1 == cnt { LRU_SENTINEL } else { i as u32 + 1 }, ekey: ek, flags: (i % 3) as u8 });
            }
            let header = LruFileHeader { version: 1, hash: [0; 16], mru_head: if cnt == 0 { LRU_SENTINEL } else { cnt as u32 - 1 }, lru_tail: if cnt == 0 { LRU_SENTINEL } else { 0 } };
            let bytes = lru_file::serialize(&header, &entries);
            let view = |h: &LruFileHeader, e: &[LruFileEntry]| format!("{}:{}:{}|{:?}", h.version, h.mru_head, h.lru_tail, e);
            let orig = view(&header, &entries);
            let len = bytes.len();
            Ok(Artifact {
                bytes,
                protected: vec![0..len],
                whole: true,
                fixed_size: false,
                check: Box::new(move |b| match lru_file::deserialize(b) {
                    None => Verdict::Refused,
                    Some((h, e)) => {
                        if view(&h, &e) == orig { Verdict::Same } else { Verdict::Different(format!("accepted as {} entries, head {} tail {}", e.len(), h.mru_head, h.lru_tail)) }
                    }
                }),
            })
        }
        "update_entry" => {
            let mut ek = [0u8; 9];
            rng.fill(&mut ek);
            let st = *rng.pick(&[UpdateStatus::Normal, UpdateStatus::Delete, UpdateStatus::HeaderNonResident, UpdateStatus::DataNonResident]);
            let e = UpdateEntry::new(ek, ArchiveLocation { archive_id: rng.below(1024) as u16, archive_offset: rng.below(1 << 30) as u32 }, rng.next_u64() as u32, st);
            let bytes = e.to_bytes().to_vec();
            let orig = format!("{e:?}");
            Ok(Artifact {
                bytes,
                // hash guard (0..4) + hashed range (4..23)
                protected: vec![0..23],
                whole: false,
                fixed_size: true,
                check: Box::new(move |b| {
                    let Ok(arr) = <[u8; 24]>::try_from(b) else { return Verdict::Refused };
                    let e = UpdateEntry::from_bytes(&arr);
                    if !e.validate_hash_guard() {
                        Verdict::Refused
                    } else if format!("{e:?}") == orig {
                        Verdict::Same
                    } else {
                        Verdict::Different(format!("validate_hash_guard() accepted {e:?}"))
                    }
                }),
            })
        }
        "idx_file" => {
            // A whole bucket file written by the real IndexManager::save_all with entries pending in its update
            // section, read back by the real loader: the hash guard of an update entry must protect it on the
            // LOAD path, not only when somebody calls validate_hash_guard() by hand.
            use cascette_client_storage::index::IndexManager;
            let dir = root.join("idxart");
            std::fs::create_dir_all(&dir).map_err(|e| e.to_string())?;
            let mut im = IndexManager::new(&dir);
            // all keys in one bucket (first 8 bytes zero: the bucket is the folded 9th byte): byte 8 = 0x10 | j
            let key_of = |j: u32| -> [u8; 16] {
                let mut k = [0u8; 16];
                // distinct 9-byte prefixes, same bucket: every varying byte appears twice (XOR cancels)
                k[8] = 0x10;
                k[2] = (j >> 8) as u8;
                k[3] = j as u8;
                k[4] = k[2];
                k[5] = k[3];
                k[0] = 0x5A;
                k[1] = 0x5A;
                k
            };
            let nsorted = n % 7 + 1;
            for j in 0..nsorted {
                im.add_entry(&EncodingKey::from_bytes(key_of(j)), (j % 1000) as u16, 64 * j + 30, 100 + j).map_err(|e| e.to_string())?;
            }
            im.flush_all_updates().map_err(|e| e.to_string())?;
            // a few entries (one 21-entry page) or, one instance in three, enough to reach a second, third or
            // fourth 512-byte page of the update section (pages end in 8 bytes of padding)
            let npending = if n % 3 == 0 { [21u32, 22, 23, 30, 43, 64][(n / 3 % 6) as usize] } else { n % 5 + 2 };
            for j in 0..npending {
                im.add_entry(&EncodingKey::from_bytes(key_of(100 + j)), 7, 4096 * (j + 1), 55 + j).map_err(|e| e.to_string())?;
            }
            if n % 2 == 0 {
                let _ = im.remove_entry(&EncodingKey::from_bytes(key_of(0)));
            }
            im.save_all().map_err(|e| e.to_string())?;
            let file = std::fs::read_dir(&dir).map_err(|e| e.to_string())?.flatten().map(|e| e.path()).filter(|p| p.extension().is_some_and(|x| x == "idx")).max_by_key(|p| std::fs::metadata(p).map(|m| m.len()).unwrap_or(0)).ok_or("no .idx file written")?;
            let fname = file.file_name().map(|f| f.to_os_string()).ok_or("no file name")?;
            let bytes = std::fs::read(&file).map_err(|e| e.to_string())?;
            // (one runtime and one directory per artifact: a run performs thousands of these loads)
            let rt = super::paused_runtime();
            let load = move |b: &[u8], tag: &str| -> Result<String, String> {
                let d = root_of_loads(&file).join(tag);
                std::fs::create_dir_all(&d).map_err(|e| e.to_string())?;
                std::fs::write(d.join(&fname), b).map_err(|e| e.to_string())?;
                let mut fresh = IndexManager::new(&d);
                rt.block_on(fresh.load_all()).map_err(|e| e.to_string())?;
                let mut v: Vec<String> = fresh.iter_entries().map(|(b, e)| format!("{b}:{e:?}")).collect();
                v.sort();
                Ok(v.join(";"))
            };
            let orig = load(&bytes, "orig")?;
            // protected = every non-empty 24-byte entry of every 512-byte page of the update section
            // (which starts at the first 64 KiB boundary at or after the sorted section)
            let mut protected = Vec::new();
            let start = 0x1_0000usize;
            let mut off = start;
            while off + 512 <= bytes.len() {
                for j in 0..21 {
                    let o = off + j * 24;
                    if bytes[o..o + 4] != [0, 0, 0, 0] {
                        protected.push(o..o + 23);
                    }
                }
                off += 512;
            }
            if protected.is_empty() {
                return Err("the saved .idx file has no update entries".into());
            }
            Ok(Artifact {
                bytes,
                protected,
                whole: false,
                fixed_size: true,
                check: Box::new(move |b| match load(b, "cand") {
                    Err(_) => Verdict::Refused,
                    Ok(v) if v == orig => Verdict::Same,
                    Ok(v) => Verdict::Different(format!("IndexManager::load_all accepted the file and yields {} (original: {})", &v[..v.len().min(300)], &orig[..orig.len().min(300)])),
                }),
            })
        }
        "residency_file" => {
            // The residency database as ResidencyDb::save writes it, read back by ResidencyDb::load: the hash
            // guard of every stored entry must protect it on the load path.
            use cascette_client_storage::kmt::key_state::ResidencyDb;
            let dir = root.join("resart");
            std::fs::create_dir_all(&dir).map_err(|e| e.to_string())?;
            let path = dir.join("key_state_v8");
            let mut db = ResidencyDb::new(path.clone());
            // a few keys or, one instance in three, enough for one bucket to need a second or third 25-entry page
            // (byte 15 decides the bucket: keys with byte 15 = 16*i all fall into one bucket)
            let nkeys = if n % 3 == 1 { [25u32, 26, 27, 40, 51, 60][(n / 3 % 6) as usize] } else { n % 9 + 2 };
            let mut keys = Vec::new();
            for j in 0..nkeys {
                let mut k = key16(&mut rng);
                k[15] = j as u8;
                db.mark_resident(&k);
                keys.push(k);
            }
            if n % 3 == 0 {
                db.mark_non_resident(&keys[0]);
            }
            if n % 4 == 1 {
                db.mark_span_non_resident(&keys[1], 16, 64);
            }
            db.save().map_err(|e| e.to_string())?;
            let bytes = std::fs::read(&path).map_err(|e| e.to_string())?;
            let keys2 = keys.clone();
            let load = move |b: &[u8]| -> Result<String, String> {
                let p = dir.join("cand_key_state_v8");
                std::fs::write(&p, b).map_err(|e| e.to_string())?;
                let db = ResidencyDb::load(&p).map_err(|e| e.to_string())?;
                let mut scan = db.scan_keys();
                scan.sort_unstable();
                let res: Vec<bool> = keys2.iter().map(|k| db.is_resident(k)).collect();
                let _ = std::fs::remove_file(&p);
                Ok(format!("{res:?}|{}|{}", scan.iter().map(hex::encode).collect::<Vec<_>>().join(","), db.entry_count()))
            };
            let orig = load(&bytes)?;
            // walk the file: [bucket u8][pages u32] then pages of 1024 bytes holding 40-byte entries
            let mut protected = Vec::new();
            let mut off = 0usize;
            while off + 5 <= bytes.len() {
                let pages = u32::from_le_bytes([bytes[off + 1], bytes[off + 2], bytes[off + 3], bytes[off + 4]]) as usize;
                off += 5;
                for _ in 0..pages {
                    if off + 1024 > bytes.len() {
                        break;
                    }
                    for j in 0..25 {
                        let o = off + j * 40;
                        if bytes[o..o + 4] != [0, 0, 0, 0] {
                            protected.push(o..o + 37);
                        }
                    }
                    off += 1024;
                }
            }
            if protected.is_empty() {
                return Err("the saved residency file has no entries".into());
            }
            Ok(Artifact {
                bytes,
                protected,
                whole: false,
                fixed_size: true,
                check: Box::new(move |b| match load(b) {
                    Err(_) => Verdict::Refused,
                    Ok(v) if v == orig => Verdict::Same,
                    Ok(v) => Verdict::Different(format!("ResidencyDb::load accepted the file and yields {} (original: {})", &v[..v.len().min(300)], &orig[..orig.len().min(300)])),
                }),
            })
        }
        "residency_entry" => {
            let ty = *rng.pick(&[ResidencyUpdateType::Set, ResidencyUpdateType::Create, ResidencyUpdateType::Delete, ResidencyUpdateType::MarkResident, ResidencyUpdateType::MarkNonResident]);
            let e = ResidencyEntry::new(key16(&mut rng), ResidencySpan::range(rng.next_u64() as i32, rng.next_u64() as i32), ty);
            let bytes = e.to_bytes().to_vec();
            let orig = format!("{e:?}");
            Ok(Artifact {
                bytes,
                protected: vec![0..37],
                whole: false,
                fixed_size: true,
                check: Box::new(move |b| {
                    let Ok(arr) = <[u8; 40]>::try_from(b) else { return Verdict::Refused };
                    let e = ResidencyEntry::from_bytes(&arr);
                    if !e.is_valid() || !e.validate_hash_guard() {
                        Verdict::Refused
                    } else if format!("{e:?}") == orig {
                        Verdict::Same
                    } else {
                        Verdict::Different(format!("validate_hash_guard() accepted {e:?}"))
                    }
                }),
            })
        }
        "local_header" => {
            let base = *rng.pick(&[0usize, 30, 4096, 123_457, 0x3FFF_0000]);
            let h = LocalHeader::new(key16(&mut rng), rng.next_u64() as u32 >> (n % 20), base);
            let bytes = h.to_bytes().to_vec();
            let orig = bytes.clone();
            Ok(Artifact {
                bytes,
                protected: vec![0..0x1E],
                whole: true,
                fixed_size: true,
                check: Box::new(move |b| match LocalHeader::from_bytes(b) {
                    None => Verdict::Refused,
                    Some(h) => {
                        if !h.validate_checksums(base) {
                            Verdict::Refused
                        } else if h.to_bytes().as_slice() == orig.as_slice() {
                            Verdict::Same
                        } else {
                            Verdict::Different(format!("validate_checksums() accepted a header that serialises to {}", hex::encode(h.to_bytes())))
                        }
                    }
                }),
            })
        }
        "mime_v1" => {
            // real server side: database file -> AppState -> handle_v1_command
            let db = root.join("builds.json");
            let nrec = (n % 3 + 1) as usize;
            let mut recs = Vec::new();
            for i in 0..nrec {
                recs.push(json!({
                    "id": i as u64 + 1, "product": format!("wow{}", if i == 0 { "" } else { "_classic" }), "version": format!("1.{}.{}", 13 + i, rng.below(10)), "build": format!("{}", 31000 + rng.below(9000)),
                    "build_config": hex::encode(key16(&mut rng)), "cdn_config": hex::encode(key16(&mut rng)), "keyring": null, "product_config": null,
                    "build_time": format!("2020-0{}-11T10:00:0{}+00:00", i + 1, i), "encoding_ekey": hex::encode(key16(&mut rng)), "root_ekey": hex::encode(key16(&mut rng)),
                    "install_ekey": hex::encode(key16(&mut rng)), "download_ekey": hex::encode(key16(&mut rng))
                }));
            }
            std::fs::write(&db, serde_json::to_vec(&recs).unwrap_or_default()).map_err(|e| e.to_string())?;
            let cfg = cascette_ribbit::ServerConfig {
                http_bind: "127.0.0.1:8080".parse().map_err(|_| "addr")?,
                tcp_bind: "127.0.0.1:1119".parse().map_err(|_| "addr")?,
                builds: db,
                cdn_hosts: "cdn.example.test".into(),
                cdn_path: "tpr/wow".into(),
                tls_cert: None,
                tls_key: None,
            };
            let state = cascette_ribbit::AppState::new(&cfg).map_err(|e| format!("AppState::new: {e}"))?;
            let cmd = *rng.pick(&["v1/products/wow/versions", "v1/products/wow/cdns", "v1/summary", "v1/products/wow/bgdl"]);
            let resp = cascette_ribbit::tcp::v1::handle_v1_command(cmd, &state).map_err(|e| format!("handle_v1_command: {e}"))?;
            let bytes = resp.into_bytes();
            // one instance in three: the same document in the shape the OFFICIAL service sends - disposition naming the
            // endpoint class, followed by a detached base64 signature part - with LF or CRLF after the checksum
            let bytes = if n % 3 == 1 {
                let first = cascette_protocol::mime_parser::parse_v1_mime_response(&bytes).map_err(|e| format!("harness: the server's response does not parse: {e}"))?;
                let data: String = first.data.clone();
                let disp = if cmd.ends_with("cdns") { "cdns" } else if cmd.ends_with("bgdl") { "bgdl" } else if cmd.ends_with("summary") { "summary" } else { "version" };
                let body = [
                    "MIME-Version: 1.0\r\n",
                    "Content-Type: multipart/alternative; boundary=\"OfficialBoundary7\"\r\n",
                    "\r\n",
                    "--OfficialBoundary7\r\n",
                    "Content-Type: text/plain\r\n",
                    &format!("Content-Disposition: {disp}\r\n"),
                    "\r\n",
                    data.as_str(),
                    "\r\n",
                    "--OfficialBoundary7\r\n",
                    "Content-Type: application/octet-stream\r\n",
                    "Content-Disposition: signature\r\n",
                    "Content-Transfer-Encoding: base64\r\n",
                    "\r\n",
                    "MIIBygYJKoZIhvcNAQcCoIIBuzCCAbcCAQExDzANBglghkgBZQMEAgEFADALBgkq\r\nhkiG9w0BBwExggGSMIIBjgIBATBpMFQxCzAJBgNVBAYTAlVTMRswGQYDVQQKExJC\r\n",
                    "\r\n",
                    "--OfficialBoundary7--\r\n",
                ]
                .join("");
                let digest = <sha2::Sha256 as sha2::Digest>::digest(body.as_bytes());
                format!("{body}Checksum: {digest:x}{}", if n % 2 == 0 { "\r\n" } else { "\n" }).into_bytes()
            } else {
                bytes
            };
            let orig = cascette_protocol::mime_parser::parse_v1_mime_response(&bytes).map_err(|e| format!("harness: the uncorrupted response does not parse: {e}"))?;
            if orig.checksum.is_none() {
                return Err("harness: the server's v1 response carries no checksum".into());
            }
            let doc_view = |b: &[u8]| cascette_protocol::mime_parser::parse_v1_mime_to_bpsv(b).map(|d| format!("{:?}", d.rows().iter().map(|r| format!("{r:?}")).collect::<Vec<_>>()));
            let orig_doc = doc_view(&bytes).map_err(|e| format!("harness: the uncorrupted response is not BPSV: {e}"))?;
            let orig_data = orig.data;
            let pos = bytes.windows(10).rposition(|w| w == b"Checksum: ").ok_or("no checksum line")?;
            let total_len = bytes.len();
            Ok(Artifact {
                bytes,
                // SHA-256 is defined over every byte before the last "Checksum: " line
                // the message and the 64 hex digits of the checksum itself
                protected: vec![0..pos, pos + 10..(pos + 74).min(total_len)],
                whole: false,
                fixed_size: false,
                // the reader is the client's entry point: MIME + checksum validation + BPSV parse
                check: Box::new(move |b| match doc_view(b) {
                    Err(_) => Verdict::Refused,
                    Ok(d) => {
                        if d == orig_doc {
                            Verdict::Same
                        } else {
                            let r = cascette_protocol::mime_parser::parse_v1_mime_response(b);
                            Verdict::Different(format!(
                                "parse_v1_mime_to_bpsv accepted a document that differs from the one sent (data {} of {} bytes, checksum line recognised: {})",
                                r.as_ref().map(|r| r.data.len()).unwrap_or(0),
                                orig_data.len(),
                                r.map(|r| r.checksum.is_some()).unwrap_or(false)
                            ))
                        }
                    }
                }),
            })
        }
        other => Err(format!("unknown artifact kind {other}")),
    }
}

/// All corruptions of an artifact, as (label, bytes).
fn corruptions(a: &Artifact, rng: &mut Rng, multi: bool) -> Vec<(String, &'static str, Vec<u8>)> {
    let mut out = Vec::new();
    let total: usize = a.protected.iter().map(|r| r.len()).sum();
    // positions: all when <= 4 KiB, else a window of 4 KiB plus the first/last 64 bytes of every range
    let mut positions: Vec<usize> = Vec::new();
    if total <= 4096 {
        for r in &a.protected {
            positions.extend(r.clone());
        }
    } else {
        for r in &a.protected {
            positions.extend(r.start..(r.start + 64).min(r.end));
            positions.extend(r.end.saturating_sub(64).max(r.start)..r.end);
        }
        let all: Vec<usize> = a.protected.iter().flat_map(|r| r.clone()).collect();
        let start = rng.usize_below(all.len().saturating_sub(4096).max(1));
        positions.extend(all[start..(start + 4096).min(all.len())].iter().copied());
        positions.sort_unstable();
        positions.dedup();
    }
    for &p in &positions {
        for bit in 0..8 {
            let mut b = a.bytes.clone();
            b[p] ^= 1 << bit;
            out.push((format!("bitflip@{p}.{bit}"), "bitflip", b));
        }
    }
    let small = total <= 1024;
    for &p in &positions {
        if !small && p % 7 != 0 {
            continue;
        }
        for (name, v) in [("00", 0x00u8), ("ff", 0xFF), ("rnd", (rng.next_u64() & 0xFF) as u8)] {
            if a.bytes[p] != v {
                let mut b = a.bytes.clone();
                b[p] = v;
                out.push((format!("subst_{name}@{p}"), "subst", b));
            }
        }
    }
    // substitutions of MORE than one byte (still one corruption event per load): two bytes d apart swapped, the same
    // XOR delta in two bytes d apart (d = 1, 2, 3, 4, 8, 16: the word sizes and lane widths of rotating / folding
    // checksums), NOT runs of zeroed bytes: an all-zero hash guard is these formats' empty-slot marker, so a zeroed entry is an absent one by definition. A checksum built from several sums must not be weaker than its strongest
    // one: a sum that only XORs or adds bytes lane by lane cannot see these, a real hash does.
    if multi {
        let pos_set: std::collections::HashSet<usize> = positions.iter().copied().collect();
        let stride = if small { 1 } else { 11 };
        for &p in positions.iter().step_by(stride) {
            for d in [1usize, 2, 3, 4, 8, 16] {
                let q = p + d;
                if !pos_set.contains(&q) {
                    continue;
                }
                if a.bytes[p] != a.bytes[q] {
                    let mut b = a.bytes.clone();
                    b.swap(p, q);
                    out.push((format!("swap@{p}+{d}"), "subst2", b));
                }
                let delta = [0x01u8, 0x40, 0x80, 0xFF, (rng.next_u64() & 0xFF) as u8 | 2][(p + d) % 5];
                let mut b = a.bytes.clone();
                b[p] ^= delta;
                b[q] ^= delta;
                out.push((format!("xor2_{delta:02x}@{p}+{d}"), "subst2", b));
            }
        }
    }
    if !a.fixed_size || a.whole {
        // truncation at every length inside the protected region (thinned above 600 lengths)
        let lens: Vec<usize> = a.protected.iter().flat_map(|r| r.start..r.end).collect();
        let step = (lens.len() / 600).max(1);
        for (i, l) in lens.iter().enumerate() {
            if i % step == 0 || i + 1 == lens.len() {
                out.push((format!("truncate@{l}"), "truncate", a.bytes[..*l].to_vec()));
            }
        }
    }
    if a.whole && !a.fixed_size {
        for ext in [1usize, 16, 20, 512] {
            let mut b = a.bytes.clone();
            b.extend(std::iter::repeat_n(0u8, ext));
            out.push((format!("extend_zero+{ext}"), "extend", b));
            let mut b = a.bytes.clone();
            b.extend((0..ext).map(|i| (i as u8).wrapping_mul(37) | 1));
            out.push((format!("extend_data+{ext}"), "extend", b));
        }
    }
    out
}

impl Scenario for Corrupt {
    type Case = Case;
    fn property(&self) -> &'static str {
        "C07"
    }
    fn name(&self) -> &'static str {
        "corrupt"
    }
    fn level(&self) -> &'static str {
        "fault_enumeration"
    }
    fn eval_unit(&self) -> &'static str {
        "one corruption of one artifact instance loaded by the real reader (or one cache operation in a put/corrupt/get sequence)"
    }
    fn rule(&self) -> &'static str {
        "Per run one artifact instance is produced by the real writer (EncodingBuilder, ArchiveIndexBuilder, lru_file::serialize, UpdateEntry::new, ResidencyEntry::new, LocalHeader::new, whole .idx bucket files from IndexManager::save_all with 2-6 or (one in three) 21-64 pending update entries = 1-4 pages, whole residency files from ResidencyDb::save with 2-10 or 25-60 keys in a bucket, the Ribbit server's handle_v1_command with its SHA-256 Checksum epilogue - as the server frames it or, one instance in three, re-framed the way the official service does: endpoint-class disposition + detached signature part) from seeded content, and then corrupted inside the region its checksum is defined over: EVERY single-bit flip (all positions when the region is <= 4 KiB, else a seeded 4 KiB window plus the first/last 64 bytes of each range), 0x00/0xFF/random byte substitutions, substitutions of more than one byte (two bytes 1/2/3/4/8/16 apart swapped or XORed with one delta; not for mime_v1, see C07-F2), truncation at every length, extensions for whole-file checksums. The real reader must refuse (Err / validator says invalid); Ok with different content is the violation; Ok with equal content is counted. Cache runs: seeded sequences of put_validated/put_with_validation, corrupt/delete the disk layer's file, get_validated/get_with_validation on ContentAddressedCache<DiskCache> and MultiLayerCacheImpl+Md5ValidationHooks: every Some(bytes) must hash to the requested key, and after a detected corruption the next read must not serve the entry. evaluations = corruptions + cache ops; distinct = hash of (kind, artifact bytes, verdict vector)."
    }
    fn assumptions(&self) -> Vec<&'static str> {
        vec![
            "the protected region is taken from each checksum's own definition (LRU: whole file; update entry: bytes 0..23; residency entry: 0..37; local header: 0..0x1E; MIME: every byte before the last 'Checksum: ' line; encoding: the pages; archive index: the 12 hashed footer bytes + the footer hash)",
            "one corruption event per load (one flip / substitution of one byte or of two bytes at most 16 apart / truncation / extension), not combinations of events",
            "a load that succeeds with content logically equal to the original is not a violation (the changed bit was not semantically protected); it is counted as accepted_same",
        ]
    }
    fn components(&self) -> Vec<(&'static str, &'static str)> {
        vec![
            ("format writers and readers (cascette-formats, cascette-client-storage)", "real"),
            ("Ribbit server v1 response formatting + cascette-protocol MIME/checksum parser", "real (in-process, no socket)"),
            ("ContentAddressedCache, MultiLayerCacheImpl, Md5ValidationHooks, DiskCache files on tmpfs", "real"),
            ("storage / network corruption", "simulated (bytes edited between writer and reader; files edited between cache operations)"),
        ]
    }
    fn runs(&self, tier: Tier) -> u64 {
        match tier {
            Tier::Quick => 1_600,
            Tier::Thorough => 40_000,
        }
    }

    /// one run is thousands of loads of a corrupted file: generous, so that a loaded machine is not mistaken for a hang
    fn watchdog_ms(&self) -> u64 {
        90_000
    }

    fn generate(&self, rng: &mut Rng, _tier: Tier) -> Case {
        let kind = *rng.pick(&["encoding", "archive_index", "lru_file", "lru_file", "update_entry", "residency_entry", "local_header", "mime_v1", "idx_file", "residency_file", "ca_cache", "ca_cache", "ml_cache", "ml_cache", "ml_cache"]);
        let mut ops = Vec::new();
        if kind.ends_with("_cache") {
            let nv = 3usize;
            let nops = rng.range(3, 14) as usize;
            for _ in 0..nops {
                let v = rng.usize_below(nv);
                ops.push(match rng.below(100) {
                    0..=29 => COp::Put { v },
                    30..=34 => COp::PutWrongKey { v, w: (v + 1 + rng.usize_below(nv - 1)) % nv },
                    35..=59 => COp::CorruptFile { v, how: rng.below(6) as u8, pos: rng.next_u64() as u32 },
                    60..=63 => COp::DeleteFile { v },
                    64..=66 => COp::PlantFile { v, w: (v + 1 + rng.usize_below(nv - 1)) % nv, what: rng.below(3) as u8 },
                    67..=89 => COp::Get { v },
                    _ => COp::GetTwice { v },
                });
            }
        }
        Case { kind: kind.to_string(), aseed: rng.next_u64(), n: rng.next_u64() as u32, ops, only: None }
    }

    fn execute(&self, case: &Case, ctx: &mut Ctx) -> Option<Violation> {
        ctx.needs_fault = true;
        ctx.mutations = 2;
        ctx.obs(case.kind.as_bytes());
        if case.kind.ends_with("_cache") {
            let rt = super::paused_runtime();
            return rt.block_on(run_cache(case, ctx));
        }
        let art = match build_artifact(&case.kind, case.aseed, case.n, &ctx.root) {
            Ok(a) => a,
            Err(e) => panic!("harness: cannot build artifact {}: {e}", case.kind),
        };
        ctx.obs(&art.bytes);
        // the uncorrupted artifact must load as itself
        match (art.check)(&art.bytes) {
            Verdict::Same => {}
            Verdict::Refused => panic!("harness: the uncorrupted {} artifact is refused by its reader", case.kind),
            Verdict::Different(d) => panic!("harness: the uncorrupted {} artifact loads as something else: {d}", case.kind),
        }
        let mut rng = Rng::new(case.aseed ^ 0xC0FF_EE);
        // (mime_v1 is left out of the multi-byte class: its checksum line is optional for the parser - known finding
        // C07-F2 - so a pair of changes of which one hides the checksum line is that finding again, not a new one)
        let all = corruptions(&art, &mut rng, case.kind != "mime_v1");
        ctx.event(|| json!({"k":"artifact","kind":case.kind,"len":art.bytes.len(),"protected":art.protected.iter().map(|r| [r.start, r.end]).collect::<Vec<_>>(),"corruptions":all.len()}));
        for (i, (label, kind, bytes)) in all.iter().enumerate() {
            if case.only.is_some_and(|o| o != i as u64) {
                continue;
            }
            ctx.count("evaluations");
            ctx.fault(kind);
            match (art.check)(bytes) {
                Verdict::Refused => {
                    ctx.obs(&[0]);
                    ctx.count("refused");
                }
                Verdict::Same => {
                    ctx.obs(&[1]);
                    ctx.count("accepted_same");
                    ctx.count(&format!("accepted_same:{}", case.kind));
                }
                Verdict::Different(d) => {
                    ctx.event(|| json!({"k":"fault","corruption":label,"index":i,"verdict":"accepted_different","detail":d}));
                    return Some(Violation::new(
                        "C07.reject_corruption",
                        "corruption_accepted",
                        format!("C07/{}/corruption_accepted/{}", case.kind, kind),
                        format!("{} artifact of {} bytes, corruption #{i} [{label}] inside the protected region was accepted: {d}", case.kind, art.bytes.len()),
                    ));
                }
            }
        }
        ctx.state(Ctx::hash_of(case.kind.as_bytes()) ^ (art.bytes.len() as u64));
        None
    }

    fn shrink(&self, case: &Case) -> Vec<Case> {
        let mut out = Vec::new();
        if case.kind.ends_with("_cache") {
            for ops in shrink_vec(&case.ops) {
                out.push(Case { ops, ..case.clone() });
            }
        } else if case.n > 0 {
            out.push(Case { n: case.n / 2, ..case.clone() });
            out.push(Case { n: 0, ..case.clone() });
        }
        out
    }
}

fn corrupt_bytes(b: &[u8], how: u8, pos: u32) -> Vec<u8> {
    let mut v = b.to_vec();
    match how % 6 {
        0 if !v.is_empty() => {
            let p = pos as usize % v.len();
            v[p] ^= 1 << (pos % 8);
        }
        1 if !v.is_empty() => {
            let p = pos as usize % v.len();
            v[p] = v[p].wrapping_add(1);
        }
        2 if !v.is_empty() => {
            v.truncate(pos as usize % v.len());
        }
        3 => v.push((pos & 0xFF) as u8),
        4 => {
            // replace by other content of the same length
            for (i, x) in v.iter_mut().enumerate() {
                *x = (i as u8).wrapping_mul(13).wrapping_add(pos as u8);
            }
        }
        _ => v.clear(),
    }
    v
}

async fn run_cache(case: &Case, ctx: &mut Ctx) -> Option<Violation> {
    let dir = ctx.root.join("cache");
    let mut rng = Rng::new(case.aseed);
    let mut values: Vec<Vec<u8>> = (0..3).map(|i| super::payload(case.aseed ^ i, *rng.pick(&[0usize, 1, 16, 200, 5000]))).collect();
    // one run in eight: two content keys are the SAME key (identical content put twice under "two" keys)
    if case.n % 8 == 3 {
        values[1] = values[0].clone();
    }
    let keys: Vec<ContentKey> = values.iter().map(|v| ContentKey::from_data(v)).collect();
    let disk_cfg = DiskCacheConfig::new(dir.clone()).with_subdirectories(false, 1);

    enum Sut {
        Ca(ContentAddressedCache<DiskCache<BlteBlockKey>>),
        Ml(MultiLayerCacheImpl<ContentCacheKey>),
    }
    let (sut, file_of): (Sut, Box<dyn Fn(usize) -> std::path::PathBuf>) = if case.kind == "ca_cache" {
        let inner = match DiskCache::<BlteBlockKey>::new(disk_cfg) {
            Ok(c) => Arc::new(c),
            Err(e) => panic!("harness: disk cache: {e}"),
        };
        let ks = keys.clone();
        let d = dir.clone();
        (Sut::Ca(ContentAddressedCache::new(inner, Arc::new(NgdpValidationHooks::new()))), Box::new(move |v| d.join(BlteBlockKey::new_raw(ks[v], 0).as_cache_key())))
    } else {
        // disk layer first when n is even (so validated reads hit the corruptible layer directly),
        // else [memory(1 entry), disk]
        let mut cfg = MultiLayerCacheConfig::new();
        if case.n % 2 == 1 {
            cfg = cfg.add_memory_layer(MemoryCacheConfig::new().with_max_entries(1));
        }
        cfg = cfg.add_disk_layer(disk_cfg);
        let mut ml = match MultiLayerCacheImpl::<ContentCacheKey>::new(cfg) {
            Ok(c) => c,
            Err(e) => panic!("harness: multi-layer cache: {e}"),
        };
        ml.set_validation_hooks(Some(Arc::new(Md5ValidationHooks::new())));
        let ks = keys.clone();
        let d = dir.clone();
        (Sut::Ml(ml), Box::new(move |v| d.join(ContentCacheKey::new(ks[v]).as_cache_key())))
    };
    for _ in 0..3 {
        tokio::task::yield_now().await;
    }
    let disk_layer = if case.kind == "ml_cache" && case.n % 2 == 1 { 1usize } else { 0 };

    // validating read: Ok(Some(bytes)) | Ok(None) | Err
    async fn vget(sut: &Sut, keys: &[ContentKey], v: usize) -> Result<Option<Bytes>, String> {
        match sut {
            Sut::Ca(c) => c.get_validated(keys[v]).await.map_err(|e| e.to_string()),
            Sut::Ml(m) => m.get_with_validation(&ContentCacheKey::new(keys[v]), Some(keys[v])).await.map(|o| o.map(cascette_cache::validation::NgdpBytes::into_bytes)).map_err(|e| e.to_string()),
        }
    }
    let sigk = case.kind.clone();
    let bad = move |class: &str, detail: String| Violation::new("C07.cache.validated_read", class, format!("C07/{sigk}/{class}"), detail);

    for (i, op) in case.ops.iter().enumerate() {
        ctx.count("evaluations");
        match op {
            COp::Put { v } | COp::PutWrongKey { v, .. } => {
                let kidx = if let COp::PutWrongKey { w, .. } = op { *w } else { *v };
                let data = Bytes::from(values[*v].clone());
                let r: Result<(), String> = match &sut {
                    Sut::Ca(c) => c.put_validated(keys[kidx], data).await.map_err(|e| e.to_string()),
                    Sut::Ml(m) => {
                        use cascette_cache::traits::MultiLayerCache;
                        // validated put goes to L1; mirror it into the disk layer so the file exists
                        let r = m.put_with_validation(ContentCacheKey::new(keys[kidx]), keys[kidx], data.clone()).await.map(|_| ()).map_err(|e| e.to_string());
                        if r.is_ok() && disk_layer == 1 {
                            // every put invalidates the other layers, so BOTH layers hold the key only after a
                            // promotion: write the disk layer, then copy up - a valid memory copy over a
                            // corruptible disk copy (evicted later by the one-entry first layer)
                            let _ = m.put_to_layer(ContentCacheKey::new(keys[kidx]), data, 1).await;
                            let _ = m.promote(&ContentCacheKey::new(keys[kidx]), 1, 0).await;
                        }
                        r
                    }
                };
                ctx.event(|| json!({"k":"op","op":"put_validated","value":v,"under_key_of":kidx,"ok":r.is_ok()}));
                ctx.obs(&[r.is_ok() as u8]);
                if kidx != *v && r.is_ok() && values[*v] != values[kidx] {
                    // C07 promises that validating READS never return bytes that fail the key; a store that accepts
                    // them and validates lazily keeps that promise, so this is counted and the reads decide
                    ctx.count("wrong_key_put_accepted_at_put_time");
                }
            }
            COp::CorruptFile { v, how, pos } => {
                let p = file_of(*v);
                if let Ok(b) = std::fs::read(&p) {
                    let nb = corrupt_bytes(&b, *how, *pos);
                    if nb != b {
                        let _ = std::fs::write(&p, &nb);
                        ctx.fault("corrupt_backing_file");
                        ctx.event(|| json!({"k":"fault","fault":"corrupt_file","value":v,"how":how,"old_len":b.len(),"new_len":nb.len()}));
                    }
                }
            }
            COp::PlantFile { v, w, what } => {
                let p = file_of(*v);
                if let Some(d) = p.parent() {
                    let _ = std::fs::create_dir_all(d);
                }
                let bytes: Vec<u8> = match what % 3 {
                    0 => values[*w % values.len()].clone(),
                    1 => super::payload(case.aseed ^ 0xBAD, 77),
                    _ => Vec::new(),
                };
                if std::fs::write(&p, &bytes).is_ok() {
                    ctx.fault("plant_foreign_file");
                    ctx.event(|| json!({"k":"fault","fault":"plant_file","value":v,"bytes_of":w,"what":what,"len":bytes.len()}));
                }
            }
            COp::DeleteFile { v } => {
                if std::fs::remove_file(file_of(*v)).is_ok() {
                    ctx.fault("delete_backing_file");
                    ctx.event(|| json!({"k":"fault","fault":"delete_file","value":v}));
                }
            }
            COp::Get { v } | COp::GetTwice { v } => {
                let r1 = vget(&sut, &keys, *v).await;
                ctx.event(|| json!({"k":"op","op":"get_validated","value":v,"ret":match &r1 {Ok(Some(b)) => json!({"len":b.len()}), Ok(None) => json!(null), Err(e) => json!({"err":e})}}));
                ctx.obs(&[match &r1 { Ok(Some(_)) => 2, Ok(None) => 1, Err(_) => 0 }]);
                if let Ok(Some(b)) = &r1 {
                    if ContentKey::from_data(b) != keys[*v] {
                        return Some(bad("served_bytes_fail_md5", format!("op #{i}: a validating read of content key #{v} returned {} bytes whose MD5 is not the requested key", b.len())));
                    }
                }
                let detected = r1.is_err();
                if detected {
                    ctx.reached("corruption_detected_by_validating_read");
                }
                if matches!(op, COp::GetTwice { .. }) || detected {
                    let r2 = vget(&sut, &keys, *v).await;
                    if let Ok(Some(b)) = &r2 {
                        if ContentKey::from_data(b) != keys[*v] {
                            return Some(bad("served_bytes_fail_md5", format!("op #{i}: the second validating read of content key #{v} returned {} bytes whose MD5 is not the requested key", b.len())));
                        }
                    }
                    if detected && case.kind == "ml_cache" {
                        // the corrupt entry must have been dropped from all layers: an un-validated read finds nothing
                        if let Sut::Ml(m) = &sut {
                            use cascette_cache::traits::AsyncCache;
                            if let Ok(Some(b)) = m.get(&ContentCacheKey::new(keys[*v])).await {
                                if ContentKey::from_data(&b) != keys[*v] {
                                    // dropping a detected corruption from every layer is C12's promise, and C12 checks
                                    // it; C07 only promises what validating reads return
                                    ctx.count("corrupt_entry_still_served_by_plain_get");
                                }
                            }
                        }
                    }
                }
            }
        }
    }
    ctx.state(Ctx::hash_of(case.kind.as_bytes()) ^ case.ops.len() as u64);
    None
}

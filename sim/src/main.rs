//! cascette-sim: deterministic simulation with fault injection for cascette-rs.
//!
//!   sim run <Cxx> <quick|thorough> [--seed N] [--workers N] [--runs N]
//!   sim replay <file>
//!   sim worker …            (internal)
//!   sim gen <Cxx> <seed>    (print the generated case)

mod framework;
mod net;
mod fsmodel;
mod orchestrate;
mod prng;
mod scen;
mod sched;
pub mod seams;

use framework::Tier;

fn usage() -> ! {
    eprintln!(
        "usage:\n  sim run <Cxx> <quick|thorough> [--seed N] [--workers N] [--runs N]\n  sim replay <file>\n  sim gen <Cxx> <seed>\n  sim list"
    );
    std::process::exit(2);
}

fn main() {
    framework::install_panic_hook();
    if std::env::var_os("SIM_DEBUG_ENTROPY").is_some() {
        seams::DEBUG_ENTROPY.store(true, std::sync::atomic::Ordering::Relaxed);
    }
    let args: Vec<String> = std::env::args().collect();
    if args.len() < 2 {
        usage();
    }
    let code = match args[1].as_str() {
        "run" => orchestrate::cmd_run(&args[2..]),
        "worker" => orchestrate::cmd_worker(&args[2..]),
        "replay" => orchestrate::cmd_replay(&args[2..]),
        "minimize" => orchestrate::cmd_minimize(&args[2..]),
        "selftest" => orchestrate::cmd_selftest(&args[2..]),
        "gen" => {
            if args.len() < 4 {
                usage();
            }
            let Some(s) = scen::by_property(&args[2]) else { usage() };
            let seed: u64 = args[3].parse().unwrap_or(0);
            let tier = if args.get(4).map(String::as_str) == Some("thorough") { Tier::Thorough } else { Tier::Quick };
            // `--index N`: generate as run N of a batch does (scenarios that walk a grid by run index)
            if let Some(i) = args.iter().position(|a| a == "--index").and_then(|p| args.get(p + 1)).and_then(|v| v.parse::<u64>().ok()) {
                framework::set_run_index(i);
            }
            println!("{}", serde_json::to_string_pretty(&s.generate_json(seed, tier)).unwrap_or_default());
            0
        }
        "list" => {
            for s in scen::all() {
                println!("{} {} {}", s.property(), s.name(), s.level());
            }
            0
        }
        _ => usage(),
    };
    std::process::exit(code);
}

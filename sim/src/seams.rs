//! The libc seam. The simulator binary defines the libc entry points through which all
//! statically linked Rust code (std, tokio, rand, dashmap, the cascette crates) reaches
//! time, entropy, the cpu count and the file system. Real calls are made with raw
//! `syscall` instructions so nothing here depends on a symbol it overrides.
//!
//! * clock   – `clock_gettime` returns the virtual clock while a run is active.
//! * entropy – `getrandom` returns bytes of the run's entropy sub-stream.
//! * cpus    – `sched_getaffinity` always reports four CPUs.
//! * futex   – timed futex waits carry absolute deadlines computed from the (virtual)
//!             clock; they are translated into the equivalent real deadline so a timed
//!             wait lasts its nominal duration in real time whatever the virtual clock says.
//! * disk    – mutating calls pass through to the real file system and, for paths under
//!             the run's sandbox root, are appended to the run's disk-op log; optional
//!             injected failures (EIO / ENOSPC / short write) are decided by the plan
//!             the scenario installed.
#![allow(clippy::missing_safety_doc, unsafe_op_in_unsafe_fn)]

use core::arch::asm;
use libc::{c_char, c_int, c_long, c_uint, c_void, size_t, ssize_t};
use std::sync::atomic::{AtomicBool, AtomicU32, AtomicU64, Ordering::*};

// ---------------------------------------------------------------------------------------
// raw syscalls
// ---------------------------------------------------------------------------------------

#[inline]
pub unsafe fn raw6(n: c_long, a1: usize, a2: usize, a3: usize, a4: usize, a5: usize, a6: usize) -> isize {
    if (n as usize) < RAW_COUNTS.len() {
        RAW_COUNTS[n as usize].fetch_add(1, Relaxed);
    }
    let ret: isize;
    asm!(
        "syscall",
        inlateout("rax") n as isize => ret,
        in("rdi") a1, in("rsi") a2, in("rdx") a3, in("r10") a4, in("r8") a5, in("r9") a6,
        lateout("rcx") _, lateout("r11") _,
        options(nostack)
    );
    ret
}
/// Per-syscall-number count of kernel entries made through the interposers' pass-through
/// (selftest "seams": must equal what strace counts for the whole process, i.e. nothing the
/// code under test does reaches the kernel around the seam).
static RAW_COUNTS: [AtomicU64; 512] = [const { AtomicU64::new(0) }; 512];
pub fn raw_count(nr: c_long) -> u64 {
    RAW_COUNTS.get(nr as usize).map(|c| c.load(Relaxed)).unwrap_or(0)
}
#[inline]
pub unsafe fn raw3(n: c_long, a1: usize, a2: usize, a3: usize) -> isize {
    raw6(n, a1, a2, a3, 0, 0, 0)
}

#[inline]
unsafe fn finish(r: isize) -> isize {
    if r < 0 && r > -4096 {
        *libc::__errno_location() = (-r) as c_int;
        -1
    } else {
        r
    }
}

/// Real monotonic / realtime clock, for the harness's own use (watchdogs, wall time).
pub fn real_clock_ns(clk: c_int) -> u64 {
    let mut ts = libc::timespec { tv_sec: 0, tv_nsec: 0 };
    unsafe {
        raw3(libc::SYS_clock_gettime, clk as usize, &mut ts as *mut _ as usize, 0);
    }
    ts.tv_sec as u64 * 1_000_000_000 + ts.tv_nsec as u64
}
pub fn real_mono_ns() -> u64 {
    real_clock_ns(libc::CLOCK_MONOTONIC)
}
/// Real sleep that does not consult the (possibly virtual) clock.
pub fn real_sleep_ms(ms: u64) {
    let ts = libc::timespec { tv_sec: (ms / 1000) as i64, tv_nsec: ((ms % 1000) * 1_000_000) as i64 };
    unsafe {
        raw3(libc::SYS_nanosleep, &ts as *const _ as usize, 0, 0);
    }
}
/// Number of CPUs the process may really use (our `sched_getaffinity` lies to everyone else).
pub fn real_cpu_count() -> usize {
    let mut mask = [0u8; 128];
    let r = unsafe { raw3(libc::SYS_sched_getaffinity, 0, mask.len(), mask.as_mut_ptr() as usize) };
    if r <= 0 {
        return 1;
    }
    mask[..r as usize].iter().map(|b| b.count_ones() as usize).sum::<usize>().max(1)
}

// ---------------------------------------------------------------------------------------
// clock + entropy
// ---------------------------------------------------------------------------------------

static ACTIVE: AtomicBool = AtomicBool::new(false);
static VIRT_NS: AtomicU64 = AtomicU64::new(0);
static TICK_NS: AtomicU64 = AtomicU64::new(1);
static CLOCK_READS: AtomicU64 = AtomicU64::new(0);
static ENT_SEED: AtomicU64 = AtomicU64::new(0);
static ENT_CTR: AtomicU64 = AtomicU64::new(0);
/// entropy drawn by every thread other than the run's own: a stream of its own, so that a helper or
/// lingering thread that happens to draw (a new thread's hash-map keys) never shifts what the run thread draws
static ENT_CTR_OTHER: AtomicU64 = AtomicU64::new(0);
thread_local! {
    static RUN_THREAD: std::cell::Cell<bool> = const { std::cell::Cell::new(false) };
}
/// Mark the calling thread as the run's own thread (the one that executes the scenario).
pub fn mark_run_thread() {
    RUN_THREAD.with(|c| c.set(true));
}

/// 2025-06-15T15:06:40Z
pub const EPOCH_REALTIME_NS: u64 = 1_750_000_000 * 1_000_000_000;
pub const EPOCH_MONOTONIC_NS: u64 = 100_000 * 1_000_000_000;

pub fn clock_active() -> bool {
    ACTIVE.load(Relaxed)
}
/// Virtual nanoseconds elapsed since the run began.
pub fn virt_elapsed_ns() -> u64 {
    VIRT_NS.load(SeqCst)
}
pub fn advance_ns(d: u64) {
    VIRT_NS.fetch_add(d, SeqCst);
}
/// Monotonic catch-up (used to follow tokio's paused clock after auto-advance).
pub fn advance_to_at_least(elapsed_ns: u64) {
    VIRT_NS.fetch_max(elapsed_ns, SeqCst);
}
pub fn set_tick_ns(t: u64) {
    TICK_NS.store(t, SeqCst);
}
pub fn clock_reads() -> u64 {
    CLOCK_READS.load(Relaxed)
}

fn virt_now(clk: c_int) -> Option<u64> {
    let base = match clk {
        libc::CLOCK_REALTIME | libc::CLOCK_REALTIME_COARSE | libc::CLOCK_REALTIME_ALARM | libc::CLOCK_TAI => {
            EPOCH_REALTIME_NS
        }
        libc::CLOCK_MONOTONIC
        | libc::CLOCK_MONOTONIC_RAW
        | libc::CLOCK_MONOTONIC_COARSE
        | libc::CLOCK_BOOTTIME
        | libc::CLOCK_BOOTTIME_ALARM => EPOCH_MONOTONIC_NS,
        _ => return None, // cpu-time clocks stay real
    };
    Some(base)
}

#[unsafe(no_mangle)]
pub unsafe extern "C" fn clock_gettime(clk: c_int, ts: *mut libc::timespec) -> c_int {
    if ACTIVE.load(Relaxed) {
        if let Some(base) = virt_now(clk) {
            let tick = TICK_NS.load(Relaxed);
            let e = VIRT_NS.fetch_add(tick, SeqCst) + tick;
            CLOCK_READS.fetch_add(1, Relaxed);
            let t = base + e;
            if !ts.is_null() {
                (*ts).tv_sec = (t / 1_000_000_000) as i64;
                (*ts).tv_nsec = (t % 1_000_000_000) as i64;
            }
            return 0;
        }
    }
    finish(raw3(libc::SYS_clock_gettime, clk as usize, ts as usize, 0)) as c_int
}

#[unsafe(no_mangle)]
pub unsafe extern "C" fn gettimeofday(tv: *mut libc::timeval, _tz: *mut c_void) -> c_int {
    let mut ts = libc::timespec { tv_sec: 0, tv_nsec: 0 };
    let r = clock_gettime(libc::CLOCK_REALTIME, &mut ts);
    if r == 0 && !tv.is_null() {
        (*tv).tv_sec = ts.tv_sec;
        (*tv).tv_usec = ts.tv_nsec / 1000;
    }
    r
}

#[unsafe(no_mangle)]
pub unsafe extern "C" fn time(t: *mut libc::time_t) -> libc::time_t {
    let mut ts = libc::timespec { tv_sec: 0, tv_nsec: 0 };
    clock_gettime(libc::CLOCK_REALTIME, &mut ts);
    if !t.is_null() {
        *t = ts.tv_sec;
    }
    ts.tv_sec
}

static GETRANDOM_CALLS: AtomicU64 = AtomicU64::new(0);
pub static DEBUG_ENTROPY: AtomicBool = AtomicBool::new(false);
pub fn getrandom_calls() -> u64 {
    GETRANDOM_CALLS.load(Relaxed)
}

#[unsafe(no_mangle)]
pub unsafe extern "C" fn getrandom(buf: *mut c_void, len: size_t, flags: c_uint) -> ssize_t {
    if ACTIVE.load(Relaxed) {
        GETRANDOM_CALLS.fetch_add(1, Relaxed);
        if DEBUG_ENTROPY.load(Relaxed) {
            let mut name = [0u8; 32];
            libc::pthread_getname_np(libc::pthread_self(), name.as_mut_ptr().cast(), 32);
            let n = name.iter().position(|b| *b == 0).unwrap_or(32);
            let msg = format!("getrandom len={len} ctr={}/{} tid={} thread={}\n", ENT_CTR.load(Relaxed), ENT_CTR_OTHER.load(Relaxed), libc::syscall(libc::SYS_gettid), String::from_utf8_lossy(&name[..n]));
            raw3(libc::SYS_write, 2, msg.as_ptr() as usize, msg.len());
        }
        let own = RUN_THREAD.try_with(std::cell::Cell::get).unwrap_or(false);
        let seed = ENT_SEED.load(Relaxed) ^ if own { 0 } else { 0x07E4_5EED_0DD5_7EA3 };
        let ctr = if own { &ENT_CTR } else { &ENT_CTR_OTHER };
        let out = buf as *mut u8;
        let mut i = 0usize;
        while i < len {
            let c = ctr.fetch_add(1, SeqCst);
            let v = crate::prng::mix(seed ^ crate::prng::mix(c)).to_le_bytes();
            let n = (len - i).min(8);
            core::ptr::copy_nonoverlapping(v.as_ptr(), out.add(i), n);
            i += n;
        }
        return len as ssize_t;
    }
    finish(raw3(libc::SYS_getrandom, buf as usize, len, flags as usize))
}

#[unsafe(no_mangle)]
pub unsafe extern "C" fn sched_getaffinity(_pid: libc::pid_t, size: size_t, mask: *mut libc::cpu_set_t) -> c_int {
    // Always four CPUs: DashMap's shard count and any pool sizing derived from
    // available_parallelism() are the same on every host.
    if mask.is_null() || size == 0 {
        *libc::__errno_location() = libc::EINVAL;
        return -1;
    }
    core::ptr::write_bytes(mask as *mut u8, 0, size);
    *(mask as *mut u8) = 0x0F;
    0
}

// ---------------------------------------------------------------------------------------
// futex deadline translation (variadic `syscall`)
// ---------------------------------------------------------------------------------------

#[unsafe(no_mangle)]
pub unsafe extern "C" fn syscall(n: c_long, a1: usize, a2: usize, a3: usize, a4: usize, a5: usize, a6: usize) -> c_long {
    if n == libc::SYS_futex && ACTIVE.load(Relaxed) {
        let op = a2 as c_int;
        let cmd = op & 0x7f;
        // FUTEX_WAIT_BITSET (9) and FUTEX_LOCK_PI2 etc. take absolute deadlines; only 9 is used by std.
        if cmd == libc::FUTEX_WAIT_BITSET && a4 != 0 {
            let ts = &*(a4 as *const libc::timespec);
            let clk = if op & libc::FUTEX_CLOCK_REALTIME != 0 { libc::CLOCK_REALTIME } else { libc::CLOCK_MONOTONIC };
            if let Some(base) = virt_now(clk) {
                let deadline = (ts.tv_sec as u64).saturating_mul(1_000_000_000).saturating_add(ts.tv_nsec as u64);
                let vnow = base + VIRT_NS.load(SeqCst);
                let rel = deadline.saturating_sub(vnow);
                let real = real_clock_ns(clk).saturating_add(rel);
                let nts = libc::timespec { tv_sec: (real / 1_000_000_000) as i64, tv_nsec: (real % 1_000_000_000) as i64 };
                return finish(raw6(n, a1, a2, a3, &nts as *const _ as usize, a5, a6)) as c_long;
            }
        }
    }
    finish(raw6(n, a1, a2, a3, a4, a5, a6)) as c_long
}

// ---------------------------------------------------------------------------------------
// disk
// ---------------------------------------------------------------------------------------

#[derive(Clone, Debug, PartialEq, Eq)]
pub enum DiskOp {
    /// File created (did not exist) or truncated by open(O_TRUNC).
    Create { path: String, existed: bool, trunc: bool },
    Write { path: String, off: u64, data: Vec<u8> },
    Truncate { path: String, len: u64 },
    Fsync { path: String },
    FsyncDir { path: String },
    Rename { from: String, to: String },
    Unlink { path: String },
    Mkdir { path: String },
    Rmdir { path: String },
    Link { from: String, to: String },
}

impl DiskOp {
    pub fn kind(&self) -> &'static str {
        match self {
            DiskOp::Create { .. } => "create",
            DiskOp::Write { .. } => "write",
            DiskOp::Truncate { .. } => "truncate",
            DiskOp::Fsync { .. } => "fsync",
            DiskOp::FsyncDir { .. } => "fsyncdir",
            DiskOp::Rename { .. } => "rename",
            DiskOp::Unlink { .. } => "unlink",
            DiskOp::Mkdir { .. } => "mkdir",
            DiskOp::Rmdir { .. } => "rmdir",
            DiskOp::Link { .. } => "link",
        }
    }
    /// Short, stable, human-readable form (paths relative to `root`).
    pub fn describe(&self, root: &str) -> String {
        let rel = |p: &str| p.strip_prefix(root).unwrap_or(p).trim_start_matches('/').to_string();
        match self {
            DiskOp::Create { path, existed, trunc } => format!("create({},existed={existed},trunc={trunc})", rel(path)),
            DiskOp::Write { path, off, data } => format!("write({},off={off},len={})", rel(path), data.len()),
            DiskOp::Truncate { path, len } => format!("truncate({},{len})", rel(path)),
            DiskOp::Fsync { path } => format!("fsync({})", rel(path)),
            DiskOp::FsyncDir { path } => format!("fsyncdir({})", rel(path)),
            DiskOp::Rename { from, to } => format!("rename({}->{})", rel(from), rel(to)),
            DiskOp::Unlink { path } => format!("unlink({})", rel(path)),
            DiskOp::Mkdir { path } => format!("mkdir({})", rel(path)),
            DiskOp::Rmdir { path } => format!("rmdir({})", rel(path)),
            DiskOp::Link { from, to } => format!("link({}->{})", rel(from), rel(to)),
        }
    }
}

/// What an injected disk failure does to one mutating call.
#[derive(Clone, Copy, Debug, PartialEq, Eq)]
pub enum DiskFault {
    /// fail with this errno, no effect
    Errno(c_int),
    /// write only this many bytes (short write), success
    Short(usize),
}

struct DiskState {
    root: String,
    recording: bool,
    fds: Vec<Option<(String, bool)>>, // fd -> (path, is_dir)
    log: Vec<DiskOp>,
    /// number of mutating calls seen under root since `disk_begin` (recording or not)
    mutating_calls: u64,
    /// fault plan: (index of mutating call counted from plan installation, fault)
    plan: Vec<(u64, DiskFault)>,
    plan_base: u64,
    fired: Vec<(u64, &'static str, DiskFault)>,
    /// paths seen outside the root in mutating calls (sandbox safety net)
    escapes: Vec<String>,
}

static DISK_ON: AtomicBool = AtomicBool::new(false);
static DISK_LOCK: AtomicU32 = AtomicU32::new(0);
static mut DISK: Option<DiskState> = None;

struct DiskGuard;
impl DiskGuard {
    fn lock() -> Self {
        while DISK_LOCK.compare_exchange_weak(0, 1, Acquire, Relaxed).is_err() {
            core::hint::spin_loop();
        }
        DiskGuard
    }
    #[allow(static_mut_refs)]
    fn state(&mut self) -> Option<&mut DiskState> {
        unsafe { DISK.as_mut() }
    }
}
impl Drop for DiskGuard {
    fn drop(&mut self) {
        DISK_LOCK.store(0, Release);
    }
}

/// Begin observing the file system under `root` (no recording yet).
#[allow(static_mut_refs)]
pub fn disk_begin(root: &str) {
    let mut g = DiskGuard::lock();
    let _ = &mut g;
    unsafe {
        DISK = Some(DiskState {
            root: root.to_string(),
            recording: false,
            fds: Vec::new(),
            log: Vec::new(),
            mutating_calls: 0,
            plan: Vec::new(),
            plan_base: 0,
            fired: Vec::new(),
            escapes: Vec::new(),
        });
    }
    DISK_ON.store(true, SeqCst);
}
#[allow(static_mut_refs)]
pub fn disk_end() {
    DISK_ON.store(false, SeqCst);
    let mut g = DiskGuard::lock();
    let _ = &mut g;
    unsafe {
        DISK = None;
    }
}
pub fn disk_record(on: bool) {
    let mut g = DiskGuard::lock();
    if let Some(d) = g.state() {
        d.recording = on;
    }
}
pub fn disk_take_log() -> Vec<DiskOp> {
    let mut g = DiskGuard::lock();
    g.state().map(|d| std::mem::take(&mut d.log)).unwrap_or_default()
}
pub fn disk_mutating_calls() -> u64 {
    let mut g = DiskGuard::lock();
    g.state().map(|d| d.mutating_calls).unwrap_or(0)
}
/// Install a fault plan; indices count mutating calls under root from now on.
pub fn disk_set_plan(plan: Vec<(u64, DiskFault)>) {
    let mut g = DiskGuard::lock();
    if let Some(d) = g.state() {
        d.plan_base = d.mutating_calls;
        d.plan = plan;
    }
}
pub fn disk_take_fired() -> Vec<(u64, &'static str, DiskFault)> {
    let mut g = DiskGuard::lock();
    g.state().map(|d| std::mem::take(&mut d.fired)).unwrap_or_default()
}
pub fn disk_escapes() -> Vec<String> {
    let mut g = DiskGuard::lock();
    g.state().map(|d| d.escapes.clone()).unwrap_or_default()
}

unsafe fn cstr(p: *const c_char) -> String {
    if p.is_null() {
        return String::new();
    }
    let len = libc::strlen(p);
    String::from_utf8_lossy(core::slice::from_raw_parts(p as *const u8, len)).into_owned()
}

impl DiskState {
    fn under(&self, p: &str) -> bool {
        p.len() > self.root.len() && p.starts_with(&self.root) && p.as_bytes()[self.root.len()] == b'/' || p == self.root
    }
    fn resolve(&self, dirfd: c_int, path: &str) -> Option<String> {
        if path.starts_with('/') {
            return Some(path.to_string());
        }
        if dirfd == libc::AT_FDCWD {
            return None;
        }
        let (base, _) = self.fds.get(dirfd as usize)?.as_ref()?;
        if path.is_empty() || path == "." {
            Some(base.clone())
        } else {
            Some(format!("{base}/{path}"))
        }
    }
    fn path_of(&self, fd: c_int) -> Option<&(String, bool)> {
        if fd < 0 {
            return None;
        }
        self.fds.get(fd as usize)?.as_ref()
    }
    fn track(&mut self, fd: c_int, path: String, is_dir: bool) {
        let i = fd as usize;
        if self.fds.len() <= i {
            self.fds.resize(i + 1, None);
        }
        self.fds[i] = Some((path, is_dir));
    }
    fn untrack(&mut self, fd: c_int) {
        if fd >= 0 && (fd as usize) < self.fds.len() {
            self.fds[fd as usize] = None;
        }
    }
    /// Count a mutating call; returns an injected fault if the plan has one for it.
    fn mutating(&mut self, kind: &'static str) -> Option<DiskFault> {
        let idx = self.mutating_calls - self.plan_base;
        self.mutating_calls += 1;
        if let Some(pos) = self.plan.iter().position(|(i, _)| *i == idx) {
            let f = self.plan[pos].1;
            self.fired.push((idx, kind, f));
            return Some(f);
        }
        None
    }
    fn push(&mut self, op: DiskOp) {
        if self.recording {
            self.log.push(op);
        }
    }
}

unsafe fn fail(e: c_int) -> isize {
    *libc::__errno_location() = e;
    -1
}

unsafe fn do_open(dirfd: c_int, path: *const c_char, flags: c_int, mode: c_uint) -> c_int {
    if !DISK_ON.load(Relaxed) {
        return finish(raw6(libc::SYS_openat, dirfd as usize, path as usize, flags as usize, mode as usize, 0, 0)) as c_int;
    }
    let p = cstr(path);
    let resolved = {
        let mut g = DiskGuard::lock();
        g.state().and_then(|d| d.resolve(dirfd, &p).filter(|r| d.under(r)))
    };
    let Some(full) = resolved else {
        // outside the sandbox: note it if it is a creating/writing open of an absolute path
        let r = finish(raw6(libc::SYS_openat, dirfd as usize, path as usize, flags as usize, mode as usize, 0, 0)) as c_int;
        if r >= 0 {
            let mut g = DiskGuard::lock();
            if let Some(d) = g.state() {
                d.untrack(r);
                let acc = flags & libc::O_ACCMODE;
                if (acc != libc::O_RDONLY || flags & libc::O_CREAT != 0) && p.starts_with('/') && !p.starts_with("/dev/") && !p.starts_with("/proc/") {
                    d.escapes.push(p);
                }
            }
        }
        return r;
    };
    let creating = flags & libc::O_CREAT != 0;
    let trunc = flags & libc::O_TRUNC != 0 && (flags & libc::O_ACCMODE) != libc::O_RDONLY;
    let mut existed = true;
    if creating || trunc {
        let mut st: libc::stat = core::mem::zeroed();
        let r = raw6(libc::SYS_newfstatat, dirfd as usize, path as usize, &mut st as *mut _ as usize, 0, 0, 0);
        existed = r == 0;
        let will_mutate = (creating && !existed) || (trunc && existed);
        if will_mutate {
            let fault = {
                let mut g = DiskGuard::lock();
                g.state().and_then(|d| d.mutating("open"))
            };
            if let Some(DiskFault::Errno(e)) = fault {
                return fail(e) as c_int;
            }
        }
    }
    let r = finish(raw6(libc::SYS_openat, dirfd as usize, path as usize, flags as usize, mode as usize, 0, 0)) as c_int;
    if r >= 0 {
        let is_dir = flags & libc::O_DIRECTORY != 0 || {
            let mut st: libc::stat = core::mem::zeroed();
            raw3(libc::SYS_fstat, r as usize, &mut st as *mut _ as usize, 0) == 0 && (st.st_mode & libc::S_IFMT) == libc::S_IFDIR
        };
        let mut g = DiskGuard::lock();
        if let Some(d) = g.state() {
            if (creating && !existed) || (trunc && existed) {
                d.push(DiskOp::Create { path: full.clone(), existed, trunc });
            }
            d.track(r, full, is_dir);
        }
    }
    r
}

#[unsafe(no_mangle)]
pub unsafe extern "C" fn open(path: *const c_char, flags: c_int, mode: c_uint) -> c_int {
    do_open(libc::AT_FDCWD, path, flags, mode)
}
#[unsafe(no_mangle)]
pub unsafe extern "C" fn open64(path: *const c_char, flags: c_int, mode: c_uint) -> c_int {
    do_open(libc::AT_FDCWD, path, flags, mode)
}
#[unsafe(no_mangle)]
pub unsafe extern "C" fn openat(dirfd: c_int, path: *const c_char, flags: c_int, mode: c_uint) -> c_int {
    do_open(dirfd, path, flags, mode)
}
#[unsafe(no_mangle)]
pub unsafe extern "C" fn openat64(dirfd: c_int, path: *const c_char, flags: c_int, mode: c_uint) -> c_int {
    do_open(dirfd, path, flags, mode)
}

#[unsafe(no_mangle)]
pub unsafe extern "C" fn close(fd: c_int) -> c_int {
    if DISK_ON.load(Relaxed) {
        let mut g = DiskGuard::lock();
        if let Some(d) = g.state() {
            d.untrack(fd);
        }
    }
    finish(raw3(libc::SYS_close, fd as usize, 0, 0)) as c_int
}

unsafe fn tracked_file(fd: c_int) -> Option<String> {
    let mut g = DiskGuard::lock();
    let d = g.state()?;
    d.path_of(fd).filter(|(_, is_dir)| !*is_dir).map(|(p, _)| p.clone())
}

unsafe fn record_write(fd: c_int, path: String, data: Vec<u8>) {
    let end = raw3(libc::SYS_lseek, fd as usize, 0, libc::SEEK_CUR as usize);
    let off = if end >= 0 { (end as u64).saturating_sub(data.len() as u64) } else { 0 };
    let mut g = DiskGuard::lock();
    if let Some(d) = g.state() {
        d.push(DiskOp::Write { path, off, data });
    }
}

#[unsafe(no_mangle)]
pub unsafe extern "C" fn write(fd: c_int, buf: *const c_void, n: size_t) -> ssize_t {
    if !DISK_ON.load(Relaxed) {
        return finish(raw3(libc::SYS_write, fd as usize, buf as usize, n));
    }
    let Some(path) = tracked_file(fd) else {
        return finish(raw3(libc::SYS_write, fd as usize, buf as usize, n));
    };
    let fault = {
        let mut g = DiskGuard::lock();
        g.state().and_then(|d| d.mutating("write"))
    };
    let mut n_eff = n;
    match fault {
        Some(DiskFault::Errno(e)) => return fail(e),
        Some(DiskFault::Short(k)) => n_eff = k.min(n).max(if n > 0 { 1 } else { 0 }),
        None => {}
    }
    let r = finish(raw3(libc::SYS_write, fd as usize, buf as usize, n_eff));
    if r > 0 {
        let data = core::slice::from_raw_parts(buf as *const u8, r as usize).to_vec();
        record_write(fd, path, data);
    }
    r
}

#[unsafe(no_mangle)]
pub unsafe extern "C" fn writev(fd: c_int, iov: *const libc::iovec, cnt: c_int) -> ssize_t {
    if !DISK_ON.load(Relaxed) {
        return finish(raw3(libc::SYS_writev, fd as usize, iov as usize, cnt as usize));
    }
    let Some(path) = tracked_file(fd) else {
        return finish(raw3(libc::SYS_writev, fd as usize, iov as usize, cnt as usize));
    };
    let fault = {
        let mut g = DiskGuard::lock();
        g.state().and_then(|d| d.mutating("writev"))
    };
    if let Some(DiskFault::Errno(e)) = fault {
        return fail(e);
    }
    let r = finish(raw3(libc::SYS_writev, fd as usize, iov as usize, cnt as usize));
    if r > 0 {
        let mut data = Vec::with_capacity(r as usize);
        let mut left = r as usize;
        for i in 0..cnt as usize {
            if left == 0 {
                break;
            }
            let v = &*iov.add(i);
            let take = v.iov_len.min(left);
            data.extend_from_slice(core::slice::from_raw_parts(v.iov_base as *const u8, take));
            left -= take;
        }
        record_write(fd, path, data);
    }
    r
}

#[unsafe(no_mangle)]
pub unsafe extern "C" fn pwrite64(fd: c_int, buf: *const c_void, n: size_t, off: libc::off64_t) -> ssize_t {
    if !DISK_ON.load(Relaxed) {
        return finish(raw6(libc::SYS_pwrite64, fd as usize, buf as usize, n, off as usize, 0, 0));
    }
    let Some(path) = tracked_file(fd) else {
        return finish(raw6(libc::SYS_pwrite64, fd as usize, buf as usize, n, off as usize, 0, 0));
    };
    let fault = {
        let mut g = DiskGuard::lock();
        g.state().and_then(|d| d.mutating("pwrite"))
    };
    if let Some(DiskFault::Errno(e)) = fault {
        return fail(e);
    }
    let r = finish(raw6(libc::SYS_pwrite64, fd as usize, buf as usize, n, off as usize, 0, 0));
    if r > 0 {
        let data = core::slice::from_raw_parts(buf as *const u8, r as usize).to_vec();
        let mut g = DiskGuard::lock();
        if let Some(d) = g.state() {
            d.push(DiskOp::Write { path, off: off as u64, data });
        }
    }
    r
}
#[unsafe(no_mangle)]
pub unsafe extern "C" fn pwrite(fd: c_int, buf: *const c_void, n: size_t, off: libc::off_t) -> ssize_t {
    pwrite64(fd, buf, n, off)
}

unsafe fn do_ftruncate(fd: c_int, len: i64) -> c_int {
    if DISK_ON.load(Relaxed) {
        if let Some(path) = tracked_file(fd) {
            let fault = {
                let mut g = DiskGuard::lock();
                g.state().and_then(|d| d.mutating("ftruncate"))
            };
            if let Some(DiskFault::Errno(e)) = fault {
                return fail(e) as c_int;
            }
            let r = finish(raw3(libc::SYS_ftruncate, fd as usize, len as usize, 0)) as c_int;
            if r == 0 {
                let mut g = DiskGuard::lock();
                if let Some(d) = g.state() {
                    d.push(DiskOp::Truncate { path, len: len as u64 });
                }
            }
            return r;
        }
    }
    finish(raw3(libc::SYS_ftruncate, fd as usize, len as usize, 0)) as c_int
}
#[unsafe(no_mangle)]
pub unsafe extern "C" fn ftruncate(fd: c_int, len: libc::off_t) -> c_int {
    do_ftruncate(fd, len)
}
#[unsafe(no_mangle)]
pub unsafe extern "C" fn ftruncate64(fd: c_int, len: libc::off64_t) -> c_int {
    do_ftruncate(fd, len)
}

unsafe fn do_fsync(fd: c_int, nr: c_long) -> c_int {
    if DISK_ON.load(Relaxed) {
        let info = {
            let mut g = DiskGuard::lock();
            g.state().and_then(|d| d.path_of(fd).cloned())
        };
        if let Some((path, is_dir)) = info {
            let fault = {
                let mut g = DiskGuard::lock();
                g.state().and_then(|d| d.mutating("fsync"))
            };
            if let Some(DiskFault::Errno(e)) = fault {
                return fail(e) as c_int;
            }
            let r = finish(raw3(nr, fd as usize, 0, 0)) as c_int;
            if r == 0 {
                let mut g = DiskGuard::lock();
                if let Some(d) = g.state() {
                    d.push(if is_dir { DiskOp::FsyncDir { path } } else { DiskOp::Fsync { path } });
                }
            }
            return r;
        }
    }
    finish(raw3(nr, fd as usize, 0, 0)) as c_int
}
#[unsafe(no_mangle)]
pub unsafe extern "C" fn fsync(fd: c_int) -> c_int {
    do_fsync(fd, libc::SYS_fsync)
}
#[unsafe(no_mangle)]
pub unsafe extern "C" fn fdatasync(fd: c_int) -> c_int {
    do_fsync(fd, libc::SYS_fdatasync)
}

/// Common path for two-path directory operations.
unsafe fn two_path(
    kind: &'static str,
    d1: c_int,
    p1: *const c_char,
    d2: c_int,
    p2: *const c_char,
    call: impl FnOnce() -> isize,
    mk: impl FnOnce(String, String) -> DiskOp,
) -> c_int {
    if !DISK_ON.load(Relaxed) {
        return finish(call()) as c_int;
    }
    let (s1, s2) = (cstr(p1), cstr(p2));
    let (r1, r2, relevant) = {
        let mut g = DiskGuard::lock();
        match g.state() {
            Some(d) => {
                let r1 = d.resolve(d1, &s1);
                let r2 = d.resolve(d2, &s2);
                let u1 = r1.as_deref().is_some_and(|p| d.under(p));
                let u2 = r2.as_deref().is_some_and(|p| d.under(p));
                if u1 != u2 {
                    d.escapes.push(format!("{kind}:{s1}->{s2}"));
                }
                (r1, r2, u1 || u2)
            }
            None => (None, None, false),
        }
    };
    if !relevant {
        return finish(call()) as c_int;
    }
    let fault = {
        let mut g = DiskGuard::lock();
        g.state().and_then(|d| d.mutating(kind))
    };
    if let Some(DiskFault::Errno(e)) = fault {
        return fail(e) as c_int;
    }
    let r = finish(call()) as c_int;
    if r == 0 {
        let mut g = DiskGuard::lock();
        if let Some(d) = g.state() {
            d.push(mk(r1.unwrap_or(s1), r2.unwrap_or(s2)));
        }
    }
    r
}

#[unsafe(no_mangle)]
pub unsafe extern "C" fn rename(a: *const c_char, b: *const c_char) -> c_int {
    two_path(
        "rename",
        libc::AT_FDCWD,
        a,
        libc::AT_FDCWD,
        b,
        || raw6(libc::SYS_renameat, libc::AT_FDCWD as usize, a as usize, libc::AT_FDCWD as usize, b as usize, 0, 0),
        |from, to| DiskOp::Rename { from, to },
    )
}
#[unsafe(no_mangle)]
pub unsafe extern "C" fn renameat(d1: c_int, a: *const c_char, d2: c_int, b: *const c_char) -> c_int {
    two_path(
        "rename",
        d1,
        a,
        d2,
        b,
        || raw6(libc::SYS_renameat, d1 as usize, a as usize, d2 as usize, b as usize, 0, 0),
        |from, to| DiskOp::Rename { from, to },
    )
}
#[unsafe(no_mangle)]
pub unsafe extern "C" fn link(a: *const c_char, b: *const c_char) -> c_int {
    linkat(libc::AT_FDCWD, a, libc::AT_FDCWD, b, 0)
}
#[unsafe(no_mangle)]
pub unsafe extern "C" fn linkat(d1: c_int, a: *const c_char, d2: c_int, b: *const c_char, flags: c_int) -> c_int {
    two_path(
        "link",
        d1,
        a,
        d2,
        b,
        || raw6(libc::SYS_linkat, d1 as usize, a as usize, d2 as usize, b as usize, flags as usize, 0),
        |from, to| DiskOp::Link { from, to },
    )
}

unsafe fn one_path(
    kind: &'static str,
    dirfd: c_int,
    p: *const c_char,
    call: impl FnOnce() -> isize,
    mk: impl FnOnce(String) -> DiskOp,
) -> c_int {
    if !DISK_ON.load(Relaxed) {
        return finish(call()) as c_int;
    }
    let s = cstr(p);
    let resolved = {
        let mut g = DiskGuard::lock();
        match g.state() {
            Some(d) => {
                let r = d.resolve(dirfd, &s);
                match r {
                    Some(r) if d.under(&r) => Some(r),
                    Some(r) => {
                        if !r.starts_with("/dev/") && !r.starts_with("/proc/") {
                            d.escapes.push(format!("{kind}:{r}"));
                        }
                        None
                    }
                    None => None,
                }
            }
            None => None,
        }
    };
    let Some(full) = resolved else {
        return finish(call()) as c_int;
    };
    let fault = {
        let mut g = DiskGuard::lock();
        g.state().and_then(|d| d.mutating(kind))
    };
    if let Some(DiskFault::Errno(e)) = fault {
        return fail(e) as c_int;
    }
    let r = finish(call()) as c_int;
    if r == 0 {
        let mut g = DiskGuard::lock();
        if let Some(d) = g.state() {
            d.push(mk(full));
        }
    }
    r
}

#[unsafe(no_mangle)]
pub unsafe extern "C" fn unlink(p: *const c_char) -> c_int {
    one_path(
        "unlink",
        libc::AT_FDCWD,
        p,
        || raw3(libc::SYS_unlinkat, libc::AT_FDCWD as usize, p as usize, 0),
        |path| DiskOp::Unlink { path },
    )
}
#[unsafe(no_mangle)]
pub unsafe extern "C" fn unlinkat(dirfd: c_int, p: *const c_char, flags: c_int) -> c_int {
    if flags & libc::AT_REMOVEDIR != 0 {
        one_path(
            "rmdir",
            dirfd,
            p,
            || raw3(libc::SYS_unlinkat, dirfd as usize, p as usize, flags as usize),
            |path| DiskOp::Rmdir { path },
        )
    } else {
        one_path(
            "unlink",
            dirfd,
            p,
            || raw3(libc::SYS_unlinkat, dirfd as usize, p as usize, flags as usize),
            |path| DiskOp::Unlink { path },
        )
    }
}
#[unsafe(no_mangle)]
pub unsafe extern "C" fn rmdir(p: *const c_char) -> c_int {
    one_path(
        "rmdir",
        libc::AT_FDCWD,
        p,
        || raw3(libc::SYS_unlinkat, libc::AT_FDCWD as usize, p as usize, libc::AT_REMOVEDIR as usize),
        |path| DiskOp::Rmdir { path },
    )
}
#[unsafe(no_mangle)]
pub unsafe extern "C" fn mkdir(p: *const c_char, mode: libc::mode_t) -> c_int {
    one_path(
        "mkdir",
        libc::AT_FDCWD,
        p,
        || raw3(libc::SYS_mkdirat, libc::AT_FDCWD as usize, p as usize, mode as usize),
        |path| DiskOp::Mkdir { path },
    )
}
#[unsafe(no_mangle)]
pub unsafe extern "C" fn mkdirat(dirfd: c_int, p: *const c_char, mode: libc::mode_t) -> c_int {
    one_path(
        "mkdir",
        dirfd,
        p,
        || raw3(libc::SYS_mkdirat, dirfd as usize, p as usize, mode as usize),
        |path| DiskOp::Mkdir { path },
    )
}

// ---------------------------------------------------------------------------------------
// run lifecycle
// ---------------------------------------------------------------------------------------

/// Start a run: virtual clock at its epoch, entropy stream rewound, tick = 1 ns.
pub fn begin_run(entropy_seed: u64) {
    VIRT_NS.store(0, SeqCst);
    TICK_NS.store(1, SeqCst);
    ENT_SEED.store(entropy_seed, SeqCst);
    ENT_CTR.store(0, SeqCst);
    ENT_CTR_OTHER.store(0, SeqCst);
    ACTIVE.store(true, SeqCst);
}
pub fn end_run() {
    ACTIVE.store(false, SeqCst);
}
/// Move the run's entropy stream to a fixed position: whatever consumed entropy before this point
/// (one-time initialisation of process-wide singletons in the first run of a process) does not shift
/// what is drawn after it.
pub fn entropy_rewind(to: u64) {
    ENT_CTR.store(to, SeqCst);
}


// ---------------------------------------------------------------------------------------
// environment seam: getenv answers from a per-run overlay first (no setenv, which is not
// thread-safe against readers on lingering threads)
// ---------------------------------------------------------------------------------------

struct EnvOverlay {
    /// name -> value (None = the variable is unset whatever the real environment says)
    vars: Vec<(std::ffi::CString, Option<std::ffi::CString>)>,
    /// values handed out earlier stay allocated until the overlay is replaced twice
    graveyard: Vec<Vec<(std::ffi::CString, Option<std::ffi::CString>)>>,
}
static ENV_OVERLAY: std::sync::Mutex<EnvOverlay> = std::sync::Mutex::new(EnvOverlay { vars: Vec::new(), graveyard: Vec::new() });
static ENV_ON: AtomicBool = AtomicBool::new(false);

/// Replace the overlay (empty = none).
pub fn env_overlay(vars: Vec<(&str, Option<&str>)>) {
    let new: Vec<(std::ffi::CString, Option<std::ffi::CString>)> =
        vars.into_iter().filter_map(|(k, v)| Some((std::ffi::CString::new(k).ok()?, match v { Some(v) => Some(std::ffi::CString::new(v).ok()?), None => None }))).collect();
    let mut g = ENV_OVERLAY.lock().unwrap_or_else(std::sync::PoisonError::into_inner);
    ENV_ON.store(!new.is_empty(), SeqCst);
    let old = std::mem::replace(&mut g.vars, new);
    g.graveyard.push(old);
    if g.graveyard.len() > 2 {
        g.graveyard.remove(0);
    }
}

unsafe extern "C" {
    static environ: *const *const c_char;
}

#[unsafe(no_mangle)]
pub unsafe extern "C" fn getenv(name: *const c_char) -> *mut c_char {
    if name.is_null() {
        return core::ptr::null_mut();
    }
    let want = core::ffi::CStr::from_ptr(name).to_bytes();
    if ENV_ON.load(Relaxed) {
        let g = ENV_OVERLAY.lock().unwrap_or_else(std::sync::PoisonError::into_inner);
        if let Some((_, v)) = g.vars.iter().find(|(k, _)| k.as_bytes() == want) {
            return match v {
                Some(v) => v.as_ptr() as *mut c_char,
                None => core::ptr::null_mut(),
            };
        }
    }
    // the real environment, read directly (this symbol replaces libc's)
    let mut p = environ;
    if p.is_null() {
        return core::ptr::null_mut();
    }
    while !(*p).is_null() {
        let e = core::ffi::CStr::from_ptr(*p).to_bytes();
        if e.len() > want.len() && e[want.len()] == b'=' && &e[..want.len()] == want {
            return (*p).add(want.len() + 1) as *mut c_char;
        }
        p = p.add(1);
    }
    core::ptr::null_mut()
}

//! Thread scheduler for C11: real OS threads, exactly one runnable at a time (baton).
//! At every `sched_point` (hook in the code under test) the calling thread parks and the
//! seeded chooser picks who runs next. The decision list is the schedule.

use crate::prng::Rng;
use std::cell::Cell;
use std::sync::atomic::{AtomicU64, Ordering};
use std::sync::{Arc, Condvar, Mutex};

thread_local! {
    static TID: Cell<Option<usize>> = const { Cell::new(None) };
}

#[derive(Clone, Copy, Debug, PartialEq)]
enum Status {
    Ready(&'static str),
    /// parked because a lock it wants is held; becomes Ready as soon as another thread has run
    Blocked(&'static str),
    Running,
    Done,
}

struct St {
    status: Vec<Status>,
    running: Option<usize>,
}
impl St {
    fn wake_waiters(st: &mut St) {
        for s in st.status.iter_mut() {
            if let Status::Blocked(site) = *s {
                *s = Status::Ready(site);
            }
        }
    }
}

pub struct Inner {
    st: Mutex<St>,
    ctrl: Condvar,
    gates: Vec<(Mutex<bool>, Condvar)>,
    seq: AtomicU64,
    points: AtomicU64,
    lock_waits: AtomicU64,
    deadlock: std::sync::atomic::AtomicBool,
}

fn lock<T>(m: &Mutex<T>) -> std::sync::MutexGuard<'_, T> {
    m.lock().unwrap_or_else(std::sync::PoisonError::into_inner)
}

impl Inner {
    fn park(&self, tid: usize, site: &'static str, blocked: bool) {
        {
            let mut st = lock(&self.st);
            st.status[tid] = if blocked { Status::Blocked(site) } else { Status::Ready(site) };
            if !blocked {
                // this thread made progress (it may have released a lock): lock waiters may retry
                St::wake_waiters(&mut st);
            }
            st.running = None;
            self.ctrl.notify_all();
        }
        self.wait_gate(tid);
    }
    fn wait_gate(&self, tid: usize) {
        let (m, cv) = &self.gates[tid];
        let mut open = lock(m);
        while !*open {
            open = cv.wait(open).unwrap_or_else(std::sync::PoisonError::into_inner);
        }
        *open = false;
    }
    fn open_gate(&self, tid: usize) {
        let (m, cv) = &self.gates[tid];
        *lock(m) = true;
        cv.notify_all();
    }
    /// Global event sequence number (invocation / response stamps).
    pub fn stamp(&self) -> u64 {
        self.seq.fetch_add(1, Ordering::SeqCst)
    }
}

/// The hook object installed into the crates under test.
pub struct Hook(pub Arc<Inner>);

impl Hook {
    fn point(&self, site: &'static str) {
        if let Some(tid) = TID.with(Cell::get) {
            self.0.points.fetch_add(1, Ordering::Relaxed);
            self.0.park(tid, site, false);
        }
    }
    fn blocked(&self, site: &'static str) {
        if let Some(tid) = TID.with(Cell::get) {
            self.0.lock_waits.fetch_add(1, Ordering::Relaxed);
            if self.0.deadlock.load(Ordering::SeqCst) {
                panic!("deadlock: every unfinished task is waiting for a lock ({site})");
            }
            self.0.park(tid, site, true);
        } else {
            std::thread::yield_now();
        }
    }
}
impl cascette_client_storage::verif_hooks::SchedController for Hook {
    fn sched_point(&self, site: &'static str) {
        self.point(site);
    }
    fn lock_blocked(&self, site: &'static str) {
        self.blocked(site);
    }
}
impl cascette_cache::verif_hooks::SchedController for Hook {
    fn sched_point(&self, site: &'static str) {
        self.point(site);
    }
}

#[derive(Clone, Debug)]
pub enum Strategy {
    /// uniform among runnable threads at every point
    Random,
    /// PCT-style: random priorities, `d` priority change points among the first `span` decisions
    Pct { d: usize, span: usize },
    /// explicit preference list (replay): decision i prefers thread list[i]; past the end the
    /// current thread keeps running
    Explicit(Vec<usize>),
}

pub struct RunResult {
    /// (thread, site it was parked at when chosen)
    pub schedule: Vec<(usize, &'static str)>,
    pub points: u64,
    /// times a task found a (shim) lock held and had to wait
    pub lock_waits: u64,
    /// a task panicked: (thread, message)
    pub panics: Vec<(usize, String)>,
}

/// Run `tasks` to completion under the scheduler.
pub fn run(tasks: Vec<Box<dyn FnOnce(&Arc<Inner>) + Send>>, strategy: &Strategy, rng: &mut Rng, install: &dyn Fn(Option<Arc<Hook>>)) -> RunResult {
    let n = tasks.len();
    let inner = Arc::new(Inner {
        st: Mutex::new(St { status: vec![Status::Ready("start"); n], running: None }),
        ctrl: Condvar::new(),
        gates: (0..n).map(|_| (Mutex::new(false), Condvar::new())).collect(),
        seq: AtomicU64::new(0),
        points: AtomicU64::new(0),
        lock_waits: AtomicU64::new(0),
        deadlock: std::sync::atomic::AtomicBool::new(false),
    });
    install(Some(Arc::new(Hook(inner.clone()))));
    let panics: Arc<Mutex<Vec<(usize, String)>>> = Arc::new(Mutex::new(Vec::new()));
    let mut handles = Vec::with_capacity(n);
    for (tid, task) in tasks.into_iter().enumerate() {
        let inner2 = inner.clone();
        let panics2 = panics.clone();
        let h = std::thread::Builder::new()
            .name(format!("sim-task-{tid}"))
            .stack_size(4 << 20)
            .spawn(move || {
                TID.with(|t| t.set(Some(tid)));
                inner2.wait_gate(tid);
                let r = std::panic::catch_unwind(std::panic::AssertUnwindSafe(|| task(&inner2)));
                if r.is_err() {
                    let (loc, msg) = crate::framework::take_panic().unwrap_or_default();
                    lock(&panics2).push((tid, format!("{loc}: {msg}")));
                }
                TID.with(|t| t.set(None));
                let mut st = lock(&inner2.st);
                St::wake_waiters(&mut st);
                st.status[tid] = Status::Done;
                st.running = None;
                inner2.ctrl.notify_all();
            })
            .expect("spawn sim task");
        handles.push(h);
    }

    // PCT priorities
    let mut prio: Vec<u64> = (0..n).map(|_| 1000 + rng.below(1000)).collect();
    let change_points: Vec<usize> = match strategy {
        Strategy::Pct { d, span } => (0..*d).map(|_| rng.usize_below((*span).max(1))).collect(),
        _ => vec![],
    };
    let mut low = 100u64;
    let mut schedule: Vec<(usize, &'static str)> = Vec::new();
    let mut last: Option<usize> = None;
    let mut idle_rounds = 0usize;
    loop {
        let mut st = lock(&inner.st);
        while st.running.is_some() {
            st = inner.ctrl.wait(st).unwrap_or_else(std::sync::PoisonError::into_inner);
        }
        let mut ready: Vec<(usize, &'static str)> = st.status.iter().enumerate().filter_map(|(i, s)| if let Status::Ready(site) = s { Some((i, *site)) } else { None }).collect();
        if ready.is_empty() {
            // only lock-waiters (or nobody) left: let the waiters retry; if a whole round of retries
            // makes no progress the tasks are deadlocked, and the waiters are told to give up (panic)
            let waiters: Vec<(usize, &'static str)> = st.status.iter().enumerate().filter_map(|(i, s)| if let Status::Blocked(site) = s { Some((i, *site)) } else { None }).collect();
            if waiters.is_empty() {
                break;
            }
            if idle_rounds > waiters.len() + 1 {
                inner.deadlock.store(true, Ordering::SeqCst);
            }
            idle_rounds += 1;
            ready = vec![waiters[(idle_rounds - 1) % waiters.len()]];
        } else {
            idle_rounds = 0;
        }
        let d = schedule.len();
        let pick = match strategy {
            Strategy::Random => ready[rng.usize_below(ready.len())],
            Strategy::Pct { .. } => {
                if change_points.contains(&d) {
                    // demote the thread that would run now
                    if let Some((i, _)) = ready.iter().max_by_key(|(i, _)| prio[*i]) {
                        low -= 1;
                        prio[*i] = low;
                    }
                }
                *ready.iter().max_by_key(|(i, _)| prio[*i]).unwrap_or(&ready[0])
            }
            Strategy::Explicit(list) => {
                let want = list.get(d).copied().or(last);
                want.and_then(|w| ready.iter().find(|(i, _)| *i == w).copied()).unwrap_or(ready[0])
            }
        };
        st.status[pick.0] = Status::Running;
        st.running = Some(pick.0);
        drop(st);
        schedule.push(pick);
        last = Some(pick.0);
        inner.open_gate(pick.0);
    }
    for h in handles {
        let _ = h.join();
    }
    install(None);
    let p = lock(&panics).clone();
    RunResult { schedule, points: inner.points.load(Ordering::Relaxed), lock_waits: inner.lock_waits.load(Ordering::Relaxed), panics: p }
}

//! Simulated network for C13 / C15: in-process byte streams with seeded segmentation and
//! latency on tokio's virtual clock, named endpoints, scripted behaviours, a request log
//! and per-fault-kind counters. No sockets.

use crate::prng::Rng;
use std::collections::{HashMap, VecDeque};
use std::future::Future;
use std::io;
use std::pin::Pin;
use std::sync::{Arc, Mutex};
use std::task::{Context, Poll, Waker};
use std::time::Duration;
use tokio::io::{AsyncRead, AsyncWrite, ReadBuf};
use tokio::time::Instant;

fn lock<T>(m: &Mutex<T>) -> std::sync::MutexGuard<'_, T> {
    m.lock().unwrap_or_else(std::sync::PoisonError::into_inner)
}

/// How a direction of a connection cuts written bytes into segments (= read() returns).
#[derive(Clone, Debug, PartialEq)]
pub enum SegPolicy {
    /// each write is one segment
    Whole,
    /// every byte is its own segment
    Bytes1,
    /// cut at PRNG-chosen points (1..=max segments per write)
    Random { max: usize },
    /// cut right after every "\n\n" and "\r\n\r\n", plus a few random cuts
    AfterBlankLines,
    /// cut inside "Content-Type:" / "Checksum:" tokens and after each "\n"
    InsideTokens,
}

struct Dir {
    q: VecDeque<(Instant, Vec<u8>)>,
    closed: bool,
    reset: bool,
    waker: Option<Waker>,
    last_at: Option<Instant>,
    rng: Rng,
    policy: SegPolicy,
    /// virtual latency range in ms
    lat: (u64, u64),
    segments: u64,
}

impl Dir {
    fn new(rng: Rng, policy: SegPolicy) -> Self {
        Dir { q: VecDeque::new(), closed: false, reset: false, waker: None, last_at: None, rng, policy, lat: (1, 15), segments: 0 }
    }
    fn cut_points(&mut self, data: &[u8]) -> Vec<usize> {
        let n = data.len();
        let mut cuts: Vec<usize> = Vec::new();
        match &self.policy {
            SegPolicy::Whole => {}
            SegPolicy::Bytes1 => cuts.extend(1..n),
            SegPolicy::Random { max } => {
                let k = self.rng.usize_below((*max).max(1));
                for _ in 0..k {
                    if n > 1 {
                        cuts.push(1 + self.rng.usize_below(n - 1));
                    }
                }
            }
            SegPolicy::AfterBlankLines => {
                for i in 0..n {
                    if i >= 1 && data[i - 1] == b'\n' && data[i] == b'\n' && i + 1 < n {
                        cuts.push(i + 1);
                    }
                    if i >= 3 && &data[i - 3..=i] == b"\r\n\r\n" && i + 1 < n {
                        cuts.push(i + 1);
                    }
                }
                if n > 1 && self.rng.chance(1, 2) {
                    cuts.push(1 + self.rng.usize_below(n - 1));
                }
            }
            SegPolicy::InsideTokens => {
                for tok in [&b"Content-Type:"[..], &b"Checksum:"[..], &b"multipart/"[..]] {
                    let mut from = 0;
                    while let Some(p) = data[from..].windows(tok.len()).position(|w| w == tok) {
                        let at = from + p + 1 + self.rng.usize_below(tok.len() - 1);
                        if at < n {
                            cuts.push(at);
                        }
                        from += p + tok.len();
                    }
                }
                for i in 0..n.saturating_sub(1) {
                    if data[i] == b'\n' && self.rng.chance(1, 3) {
                        cuts.push(i + 1);
                    }
                }
            }
        }
        cuts.sort_unstable();
        cuts.dedup();
        cuts
    }
    fn push(&mut self, data: &[u8]) {
        if data.is_empty() {
            return;
        }
        let cuts = self.cut_points(data);
        let now = Instant::now();
        let mut start = 0;
        for end in cuts.into_iter().chain(std::iter::once(data.len())) {
            if end <= start {
                continue;
            }
            let lat = Duration::from_millis(self.rng.range(self.lat.0, self.lat.1));
            let mut at = now + lat;
            if let Some(l) = self.last_at {
                if at < l {
                    at = l;
                }
            }
            self.last_at = Some(at);
            self.q.push_back((at, data[start..end].to_vec()));
            self.segments += 1;
            start = end;
        }
        if let Some(w) = self.waker.take() {
            w.wake();
        }
    }
}

/// One end of a simulated connection.
pub struct End {
    rx: Arc<Mutex<Dir>>,
    tx: Arc<Mutex<Dir>>,
    sleep: Option<Pin<Box<tokio::time::Sleep>>>,
}

impl End {
    /// Abort the connection: the peer's next read fails with ECONNRESET.
    pub fn reset(&self) {
        let mut d = lock(&self.tx);
        d.reset = true;
        d.q.clear();
        if let Some(w) = d.waker.take() {
            w.wake();
        }
    }
    pub fn segments_sent(&self) -> u64 {
        lock(&self.tx).segments
    }
}

impl Drop for End {
    fn drop(&mut self) {
        for d in [&self.tx, &self.rx] {
            let mut d = lock(d);
            d.closed = true;
            if let Some(w) = d.waker.take() {
                w.wake();
            }
        }
    }
}

impl AsyncRead for End {
    fn poll_read(mut self: Pin<&mut Self>, cx: &mut Context<'_>, buf: &mut ReadBuf<'_>) -> Poll<io::Result<()>> {
        loop {
            let next_at = {
                let mut d = lock(&self.rx);
                if d.reset {
                    return Poll::Ready(Err(io::Error::new(io::ErrorKind::ConnectionReset, "simulated reset")));
                }
                match d.q.front() {
                    Some((at, _)) if *at <= Instant::now() => {
                        // deliver at most one segment per read
                        if let Some((at, mut seg)) = d.q.pop_front() {
                            let n = seg.len().min(buf.remaining());
                            buf.put_slice(&seg[..n]);
                            if n < seg.len() {
                                seg.drain(..n);
                                d.q.push_front((at, seg));
                            }
                        }
                        return Poll::Ready(Ok(()));
                    }
                    Some((at, _)) => *at,
                    None => {
                        if d.closed {
                            return Poll::Ready(Ok(())); // EOF
                        }
                        d.waker = Some(cx.waker().clone());
                        return Poll::Pending;
                    }
                }
            };
            // a segment is in flight: wait (virtual time) until it arrives
            let this = &mut *self;
            match this.sleep.as_mut() {
                Some(s) => s.as_mut().reset(next_at),
                None => this.sleep = Some(Box::pin(tokio::time::sleep_until(next_at))),
            }
            if let Some(s) = this.sleep.as_mut() {
                match s.as_mut().poll(cx) {
                    Poll::Ready(()) => continue,
                    Poll::Pending => {
                        lock(&this.rx).waker = Some(cx.waker().clone());
                        return Poll::Pending;
                    }
                }
            }
        }
    }
}

impl AsyncWrite for End {
    fn poll_write(self: Pin<&mut Self>, _cx: &mut Context<'_>, buf: &[u8]) -> Poll<io::Result<usize>> {
        let mut d = lock(&self.tx);
        if d.closed {
            return Poll::Ready(Err(io::Error::new(io::ErrorKind::BrokenPipe, "simulated: peer closed")));
        }
        d.push(buf);
        Poll::Ready(Ok(buf.len()))
    }
    fn poll_flush(self: Pin<&mut Self>, _cx: &mut Context<'_>) -> Poll<io::Result<()>> {
        Poll::Ready(Ok(()))
    }
    fn poll_shutdown(self: Pin<&mut Self>, _cx: &mut Context<'_>) -> Poll<io::Result<()>> {
        let mut d = lock(&self.tx);
        d.closed = true;
        if let Some(w) = d.waker.take() {
            w.wake();
        }
        Poll::Ready(Ok(()))
    }
}

/// A connected pair. `a_to_b` / `b_to_a` are the segmentation policies of the two directions.
pub fn pipe(rng: &mut Rng, a_to_b: SegPolicy, b_to_a: SegPolicy) -> (End, End) {
    let ab = Arc::new(Mutex::new(Dir::new(rng.fork("ab"), a_to_b)));
    let ba = Arc::new(Mutex::new(Dir::new(rng.fork("ba"), b_to_a)));
    (End { rx: ba.clone(), tx: ab.clone(), sleep: None }, End { rx: ab, tx: ba, sleep: None })
}

// ---------------------------------------------------------------------------------------
// the network
// ---------------------------------------------------------------------------------------

/// What a scripted HTTP endpoint does with a request.
#[derive(Clone, Debug)]
pub enum HttpBehaviour {
    Respond { status: u16, headers: Vec<(String, String)>, body: Vec<u8>, delay_ms: u64 },
    /// status line and headers arrive, then `prefix` of the body, then the connection is reset
    /// (`stall` = false) or goes silent until the request's own time-out fires (`stall` = true).
    /// The body read fails with a genuine reqwest::Error (kind Body), as it does in production.
    BrokenBody { status: u16, prefix: Vec<u8>, stall: bool, delay_ms: u64 },
    Refused,
    Reset { delay_ms: u64 },
    Stall,
    /// nothing arrives; the client's own total time-out (reqwest's client-level `timeout`, which the
    /// http_send seam bypasses) fires after `ms` and the request fails with ProtocolError::Timeout
    TimeoutAfter { ms: u64 },
}

pub type TcpHandler = Arc<dyn Fn(End, String) -> Pin<Box<dyn Future<Output = ()> + Send>> + Send + Sync>;
pub type HttpHandler = Arc<dyn Fn(String, String) -> Pin<Box<dyn Future<Output = HttpBehaviour> + Send>> + Send + Sync>;

#[derive(Clone, Debug)]
pub struct NetEvent {
    pub at_ms: u64,
    pub endpoint: String,
    pub what: String,
}

enum TcpTarget {
    /// a listener bound by real server code
    Listener(tokio::sync::mpsc::UnboundedSender<(Box<dyn cascette_ribbit::verif_hooks::Duplex>, std::net::SocketAddr)>),
    /// a scripted behaviour task
    Scripted(TcpHandler),
    Refuse,
}

pub struct NetState {
    rng: Rng,
    start: Instant,
    tcp: HashMap<String, TcpTarget>,
    http: HashMap<String, HttpHandler>,
    pub log: Vec<NetEvent>,
    pub counters: HashMap<String, u64>,
    conn_seq: u16,
    pub client_to_server: SegPolicy,
    pub server_to_client: SegPolicy,
}

#[derive(Clone)]
pub struct Network(pub Arc<Mutex<NetState>>);

impl Network {
    pub fn new(seed: u64) -> Self {
        Network(Arc::new(Mutex::new(NetState {
            rng: Rng::new(seed),
            start: Instant::now(),
            tcp: HashMap::new(),
            http: HashMap::new(),
            log: Vec::new(),
            counters: HashMap::new(),
            conn_seq: 0,
            client_to_server: SegPolicy::Whole,
            server_to_client: SegPolicy::Whole,
        })))
    }
    pub fn set_policies(&self, c2s: SegPolicy, s2c: SegPolicy) {
        let mut s = lock(&self.0);
        s.client_to_server = c2s;
        s.server_to_client = s2c;
    }
    pub fn script_tcp(&self, addr: &str, h: TcpHandler) {
        lock(&self.0).tcp.insert(addr.to_string(), TcpTarget::Scripted(h));
    }
    pub fn refuse_tcp(&self, addr: &str) {
        lock(&self.0).tcp.insert(addr.to_string(), TcpTarget::Refuse);
    }
    pub fn script_http(&self, host: &str, h: HttpHandler) {
        lock(&self.0).http.insert(host.to_string(), h);
    }
    pub fn event(&self, endpoint: &str, what: impl Into<String>) {
        let mut s = lock(&self.0);
        let at_ms = (Instant::now() - s.start).as_millis() as u64;
        s.log.push(NetEvent { at_ms, endpoint: endpoint.to_string(), what: what.into() });
    }
    pub fn count(&self, label: &str) {
        *lock(&self.0).counters.entry(label.to_string()).or_insert(0) += 1;
    }
    pub fn take_log(&self) -> Vec<NetEvent> {
        std::mem::take(&mut lock(&self.0).log)
    }
    pub fn log_len(&self) -> usize {
        lock(&self.0).log.len()
    }
    pub fn counters(&self) -> HashMap<String, u64> {
        lock(&self.0).counters.clone()
    }

    /// Client side: open a connection to a named TCP endpoint.
    pub fn connect_tcp(&self, addr: &str) -> Pin<Box<dyn Future<Output = io::Result<End>> + Send + 'static>> {
        let net = self.clone();
        let addr = addr.to_string();
        Box::pin(async move {
            // connection set-up latency
            let lat = {
                let mut s = lock(&net.0);
                s.rng.range(1, 30)
            };
            tokio::time::sleep(Duration::from_millis(lat)).await;
            let (client, server, peer) = {
                let mut s = lock(&net.0);
                let (c2s, s2c) = (s.client_to_server.clone(), s.server_to_client.clone());
                let mut r = s.rng.fork("conn");
                let (a, b) = pipe(&mut r, c2s, s2c);
                s.conn_seq += 1;
                let peer: std::net::SocketAddr = std::net::SocketAddr::from(([10, 0, 0, 1], 40_000 + s.conn_seq));
                (a, b, peer)
            };
            enum Go {
                Listener(tokio::sync::mpsc::UnboundedSender<(Box<dyn cascette_ribbit::verif_hooks::Duplex>, std::net::SocketAddr)>),
                Scripted(TcpHandler),
                Refuse,
            }
            let go = {
                let s = lock(&net.0);
                match s.tcp.get(&addr) {
                    Some(TcpTarget::Listener(tx)) => Go::Listener(tx.clone()),
                    Some(TcpTarget::Scripted(h)) => Go::Scripted(h.clone()),
                    Some(TcpTarget::Refuse) | None => Go::Refuse,
                }
            };
            match go {
                Go::Refuse => {
                    net.event(&addr, "connect refused");
                    net.count("fault:connection_refused");
                    Err(io::Error::new(io::ErrorKind::ConnectionRefused, "simulated: connection refused"))
                }
                Go::Listener(tx) => {
                    net.event(&addr, "connect");
                    if tx.send((Box::new(server), peer)).is_err() {
                        return Err(io::Error::new(io::ErrorKind::ConnectionRefused, "simulated: listener gone"));
                    }
                    Ok(client)
                }
                Go::Scripted(h) => {
                    net.event(&addr, "connect");
                    tokio::spawn(h(server, addr.clone()));
                    Ok(client)
                }
            }
        })
    }
}

// ---- hooks: protocol client side ----
impl cascette_protocol::verif_hooks::SimNet for Network {
    fn connect(&self, addr: &str) -> Option<futures::future::BoxFuture<'static, io::Result<Box<dyn cascette_protocol::verif_hooks::Duplex>>>> {
        let fut = self.connect_tcp(addr);
        Some(Box::pin(async move {
            let end = fut.await?;
            Ok(Box::new(end) as Box<dyn cascette_protocol::verif_hooks::Duplex>)
        }))
    }
}

impl cascette_protocol::verif_hooks::HttpTransport for Network {
    fn send(&self, request: reqwest::Request) -> futures::future::BoxFuture<'static, cascette_protocol::error::Result<reqwest::Response>> {
        let net = self.clone();
        Box::pin(async move {
            let url = request.url().clone();
            let host = format!("{}://{}", url.scheme(), url.host_str().unwrap_or(""));
            let path = url.path().to_string();
            let handler = lock(&net.0).http.get(&host).cloned();
            net.event(&host, format!("GET {path}"));
            let Some(h) = handler else {
                net.count("fault:connection_refused");
                return Err(cascette_protocol::ProtocolError::Network(io::Error::new(io::ErrorKind::ConnectionRefused, "simulated: no such host")));
            };
            match h(host.clone(), path).await {
                HttpBehaviour::Respond { status, headers, body, delay_ms } => {
                    tokio::time::sleep(Duration::from_millis(delay_ms)).await;
                    let mut b = http::Response::builder().status(status);
                    for (k, v) in headers {
                        b = b.header(k, v);
                    }
                    let resp = b.body(body).map_err(|e| cascette_protocol::ProtocolError::Other(e.to_string()))?;
                    Ok(reqwest::Response::from(resp))
                }
                HttpBehaviour::BrokenBody { status, prefix, stall, delay_ms } => {
                    tokio::time::sleep(Duration::from_millis(delay_ms)).await;
                    net.count(if stall { "fault:http_body_stall" } else { "fault:http_body_reset" });
                    // reqwest applies the request's total time-out to the body too
                    let wait = request.timeout().copied().unwrap_or(Duration::from_secs(30));
                    let first = futures::stream::once(async move { Ok::<bytes::Bytes, io::Error>(bytes::Bytes::from(prefix)) });
                    let then = futures::stream::once(async move {
                        if stall {
                            tokio::time::sleep(wait).await;
                            Err::<bytes::Bytes, io::Error>(io::Error::new(io::ErrorKind::TimedOut, "simulated: body read timed out"))
                        } else {
                            tokio::time::sleep(Duration::from_millis(15)).await;
                            Err(io::Error::new(io::ErrorKind::ConnectionReset, "simulated: connection reset while reading the body"))
                        }
                    });
                    let body = reqwest::Body::wrap_stream(futures::StreamExt::chain(first, then));
                    let resp = http::Response::builder().status(status).body(body).map_err(|e| cascette_protocol::ProtocolError::Other(e.to_string()))?;
                    Ok(reqwest::Response::from(resp))
                }
                HttpBehaviour::Refused => {
                    net.count("fault:connection_refused");
                    Err(cascette_protocol::ProtocolError::Network(io::Error::new(io::ErrorKind::ConnectionRefused, "simulated: connection refused")))
                }
                HttpBehaviour::Reset { delay_ms } => {
                    tokio::time::sleep(Duration::from_millis(delay_ms)).await;
                    net.count("fault:connection_reset");
                    Err(cascette_protocol::ProtocolError::Network(io::Error::new(io::ErrorKind::ConnectionReset, "simulated: connection reset")))
                }
                HttpBehaviour::Stall => {
                    net.count("fault:stall");
                    std::future::pending::<()>().await;
                    unreachable!()
                }
                HttpBehaviour::TimeoutAfter { ms } => {
                    net.count("fault:client_timeout");
                    tokio::time::sleep(Duration::from_millis(ms)).await;
                    Err(cascette_protocol::ProtocolError::Timeout)
                }
            }
        })
    }
}

// ---- hooks: ribbit server side ----
struct Listener(tokio::sync::Mutex<tokio::sync::mpsc::UnboundedReceiver<(Box<dyn cascette_ribbit::verif_hooks::Duplex>, std::net::SocketAddr)>>);

impl cascette_ribbit::verif_hooks::SimListener for Listener {
    fn accept(&self) -> cascette_ribbit::verif_hooks::AcceptFuture<'_> {
        Box::pin(async move {
            let mut rx = self.0.lock().await;
            match rx.recv().await {
                Some(x) => Ok(x),
                None => std::future::pending().await,
            }
        })
    }
}

impl cascette_ribbit::verif_hooks::SimNet for Network {
    fn bind(&self, addr: std::net::SocketAddr) -> Option<io::Result<Box<dyn cascette_ribbit::verif_hooks::SimListener>>> {
        let (tx, rx) = tokio::sync::mpsc::unbounded_channel();
        let name = format!("sim-tcp.test:{}", addr.port());
        lock(&self.0).tcp.insert(name, TcpTarget::Listener(tx));
        Some(Ok(Box::new(Listener(tokio::sync::Mutex::new(rx)))))
    }
}

//! Batch orchestration: worker processes, merging, minimisation, replay, known
//! findings, evidence.

use crate::framework::{DynScenario, RunOutput, Tier, Violation};
use crate::prng::run_seed;
use crate::scen;
use crate::seams;
use serde_json::{json, Map, Value};
use std::collections::{BTreeMap, HashSet};
use std::io::Write;
use std::path::{Path, PathBuf};

pub const DEFAULT_SEED: u64 = 20_250_925;

fn verif_dir() -> PathBuf {
    PathBuf::from(std::env::var("VERIF_DIR").unwrap_or_else(|_| "/verif".into()))
}

fn arg_val(args: &[String], name: &str) -> Option<String> {
    args.iter().position(|a| a == name).and_then(|i| args.get(i + 1)).cloned()
}
fn parse_tier(s: &str) -> Tier {
    if s == "thorough" { Tier::Thorough } else { Tier::Quick }
}
fn batch_seed(args: &[String]) -> u64 {
    arg_val(args, "--seed")
        .or_else(|| std::env::var("VERIF_SEED").ok())
        .and_then(|s| s.trim().parse::<u64>().ok().or_else(|| s.trim().parse::<i64>().ok().map(|v| v as u64)))
        .unwrap_or(DEFAULT_SEED)
}

// ---------------------------------------------------------------------------------------
// worker
// ---------------------------------------------------------------------------------------

const MAX_CASES_PER_SIG: usize = 2;
const MAX_STATE_SET: usize = 4_000_000;

struct SigBucket {
    count: u64,
    first: Vec<Value>,
}

pub fn cmd_worker(args: &[String]) -> i32 {
    let Some(scn) = args.first().and_then(|p| scen::by_property(p)) else { return 2 };
    let tier = parse_tier(args.get(1).map(String::as_str).unwrap_or("quick"));
    let seed = batch_seed(args);
    let widx: u64 = arg_val(args, "--widx").and_then(|s| s.parse().ok()).unwrap_or(0);
    let wcount: u64 = arg_val(args, "--wcount").and_then(|s| s.parse().ok()).unwrap_or(1);
    let runs: u64 = arg_val(args, "--runs").and_then(|s| s.parse().ok()).unwrap_or(1);
    let start: u64 = arg_val(args, "--start").and_then(|s| s.parse().ok()).unwrap_or(0);
    let part: u64 = arg_val(args, "--part").and_then(|s| s.parse().ok()).unwrap_or(0);
    let out = PathBuf::from(arg_val(args, "--out").unwrap_or_else(|| ".".into()));
    let deadline_s: u64 = arg_val(args, "--deadline-s").and_then(|s| s.parse().ok()).unwrap_or(0);
    let t0 = seams::real_mono_ns();

    let mut hashes: Vec<u8> = Vec::new();
    let mut counters: BTreeMap<String, u64> = BTreeMap::new();
    let mut states: HashSet<u64> = HashSet::new();
    let mut sigs: BTreeMap<String, SigBucket> = BTreeMap::new();
    let mut samples: Vec<Value> = Vec::new();
    let mut harness_errors: Vec<String> = Vec::new();
    let (mut n_runs, mut n_nontrivial, mut virt_total, mut rechecks, mut n_viol) = (0u64, 0u64, 0u128, 0u64, 0u64);
    let my_total = runs / wcount.max(1) + 1;
    let recheck_every = (my_total / 40).max(1);
    let mut resume: Option<u64> = None;
    let mut stopped_early = false;

    let mut i = start.max(widx);
    // align to this worker's residue class
    while i % wcount != widx {
        i += 1;
    }
    let mut k = 0u64;
    while i < runs {
        if deadline_s > 0 && k % 64 == 0 && (seams::real_mono_ns() - t0) / 1_000_000_000 >= deadline_s {
            stopped_early = true;
            break;
        }
        let rs = run_seed(seed, scn.name(), i);
        crate::framework::set_run_index(i);
        let dbg_nondet = std::env::var_os("SIM_DEBUG_NONDET").is_some();
        let o = scn.run_seed(rs, tier, dbg_nondet);
        n_runs += 1;
        if o.hung {
            let case = scn.generate_json(rs, tier);
            let v = Violation::new(
                &format!("{}.liveness.returns", scn.property()),
                "hang",
                format!("{}/{}/hang", scn.property(), scn.name()),
                format!("run did not finish within the real-time watchdog (run index {i}, seed {rs})"),
            );
            let b = sigs.entry(v.signature.clone()).or_insert(SigBucket { count: 0, first: vec![] });
            b.count += 1;
            b.first.push(json!({"index": i, "seed": rs, "case": case, "violation": v}));
            n_viol += 1;
            resume = Some(i + wcount);
            break;
        }
        if let Some(e) = &o.harness_error {
            if harness_errors.len() < 5 {
                harness_errors.push(format!("run {i} seed {rs}: {e}"));
            }
        }
        hashes.extend_from_slice(&o.trace_hash.to_le_bytes());
        hashes.push(o.nontrivial as u8);
        if o.nontrivial {
            n_nontrivial += 1;
        }
        virt_total += u128::from(o.virt_ns);
        for (l, c) in &o.counters {
            *counters.entry(l.clone()).or_insert(0) += c;
        }
        if states.len() < MAX_STATE_SET {
            states.extend(o.states.iter().copied());
        }
        if let Some(v) = &o.violation {
            n_viol += 1;
            let b = sigs.entry(v.signature.clone()).or_insert(SigBucket { count: 0, first: vec![] });
            b.count += 1;
            if b.first.len() < MAX_CASES_PER_SIG {
                b.first.push(json!({"index": i, "seed": rs, "case": scn.generate_json(rs, tier), "violation": v}));
            }
        }
        // in-process determinism re-check and sample collection (re-execution with tracing)
        let want_sample = widx == 0 && samples.len() < 3 && o.nontrivial && o.violation.is_none();
        if k % recheck_every == 0 || want_sample {
            let o2 = scn.run_seed(rs, tier, true);
            rechecks += 1;
            if o2.hung {
                resume = Some(i + wcount);
                break;
            }
            if o2.trace_hash != o.trace_hash {
                if dbg_nondet {
                    let _ = std::fs::write(format!("/tmp/nondet-{i}-a.json"), serde_json::to_string_pretty(&o.trace).unwrap_or_default());
                    let _ = std::fs::write(format!("/tmp/nondet-{i}-b.json"), serde_json::to_string_pretty(&o2.trace).unwrap_or_default());
                }
                harness_errors.push(format!(
                    "non-deterministic run: index {i} seed {rs} produced observation hash {:016x} then {:016x}",
                    o.trace_hash, o2.trace_hash
                ));
            }
            if want_sample {
                samples.push(json!({"index": i, "seed": rs, "case": scn.generate_json(rs, tier), "trace": truncate_trace(o2.trace, 40)}));
            }
        }
        i += wcount;
        k += 1;
    }
    let summary = json!({
        "widx": widx, "runs": n_runs, "nontrivial": n_nontrivial, "virt_ns": virt_total.to_string(),
        "counters": counters, "states_distinct": states.len(), "rechecks": rechecks, "violating_runs": n_viol,
        "sigs": sigs.iter().map(|(s, b)| (s.clone(), json!({"count": b.count, "first": b.first}))).collect::<Map<String, Value>>(),
        "samples": samples, "harness_errors": harness_errors, "resume": resume, "stopped_early": stopped_early,
        "last_index": i,
    });
    let _ = std::fs::write(out.join(format!("w{widx}.{part}.json")), serde_json::to_vec(&summary).unwrap_or_default());
    let _ = std::fs::write(out.join(format!("w{widx}.{part}.bin")), &hashes);
    let mut st: Vec<u8> = Vec::with_capacity(states.len() * 8);
    for s in &states {
        st.extend_from_slice(&s.to_le_bytes());
    }
    let _ = std::fs::write(out.join(format!("w{widx}.{part}.states")), &st);
    let _ = std::fs::remove_dir_all(crate::framework::sandbox_base());
    if resume.is_some() { 3 } else { 0 }
}

fn truncate_trace(mut t: Vec<Value>, max: usize) -> Vec<Value> {
    if t.len() > max {
        let extra = t.len() - max;
        t.truncate(max);
        t.push(json!(format!("... {extra} more events ...")));
    }
    t
}

// ---------------------------------------------------------------------------------------
// known findings
// ---------------------------------------------------------------------------------------

#[derive(Clone, Debug)]
pub struct Known {
    pub property: String,
    pub id: String,
    pub status: String,
    pub signature: String,
    pub what: String,
}

pub fn load_known() -> Vec<Known> {
    let p = verif_dir().join("known_findings.json");
    let Ok(b) = std::fs::read(&p) else { return vec![] };
    let Ok(v) = serde_json::from_slice::<Value>(&b) else { return vec![] };
    let mut out = vec![];
    for f in v.get("findings").and_then(Value::as_array).cloned().unwrap_or_default() {
        let g = |k: &str| f.get(k).and_then(Value::as_str).unwrap_or("").to_string();
        let mut sigs: Vec<String> = f.get("signatures").and_then(Value::as_array).map(|a| a.iter().filter_map(|x| x.as_str().map(String::from)).collect()).unwrap_or_default();
        if !g("signature").is_empty() {
            sigs.push(g("signature"));
        }
        for signature in sigs {
            out.push(Known { property: g("property"), id: g("id"), status: g("status"), signature, what: g("what") });
        }
    }
    out
}

/// `*` matches any run of characters.
pub fn glob_match(pat: &str, s: &str) -> bool {
    let parts: Vec<&str> = pat.split('*').collect();
    if parts.len() == 1 {
        return pat == s;
    }
    let mut pos = 0usize;
    for (i, p) in parts.iter().enumerate() {
        if i == 0 {
            if !s.starts_with(p) {
                return false;
            }
            pos = p.len();
        } else if i == parts.len() - 1 {
            return s.len() >= pos + p.len() && s[pos..].ends_with(p);
        } else {
            match s[pos..].find(p) {
                Some(j) => pos += j + p.len(),
                None => return false,
            }
        }
    }
    true
}

fn match_known<'a>(known: &'a [Known], property: &str, sig: &str) -> Option<&'a Known> {
    known.iter().find(|k| k.status == "open" && k.property == property && glob_match(&k.signature, sig))
}

// ---------------------------------------------------------------------------------------
// minimisation
// ---------------------------------------------------------------------------------------

fn same_failure(a: &Violation, b: &Violation) -> bool {
    a.oracle == b.oracle && a.class == b.class
}

/// Greedy delta debugging over the scenario's one-step candidates.
pub fn minimise(scn: &dyn DynScenario, seed: u64, case: Value, target: &Violation, budget: usize) -> (Value, Violation, usize, bool) {
    // make recorded run-time decisions (schedules...) explicit first
    let mut cur = crate::framework::apply_patch(&case, target.patch.as_ref());
    let mut cur_v = target.clone();
    let mut used = 0usize;
    let mut hung = false;
    if target.patch.is_some() {
        used += 1;
        match scn.run_json(seed, &cur, false) {
            Ok(o) if o.violation.as_ref().is_some_and(|v| same_failure(v, target)) => {}
            _ => {
                // the explicit form does not reproduce: keep the seeded form
                cur = case;
            }
        }
    }
    'outer: loop {
        let cands = scn.shrink_json(&cur);
        for c in cands {
            if used >= budget {
                break 'outer;
            }
            used += 1;
            let Ok(o) = scn.run_json(seed, &c, false) else { continue };
            if o.hung {
                hung = true;
                break 'outer;
            }
            if let Some(v) = o.violation {
                if same_failure(&v, target) {
                    cur = crate::framework::apply_patch(&c, v.patch.as_ref());
                    cur_v = v;
                    continue 'outer;
                }
            }
        }
        break;
    }
    (cur, cur_v, used, hung)
}

pub fn cmd_minimize(args: &[String]) -> i32 {
    // sim minimize <in.json> <out.json>
    let (Some(inp), Some(outp)) = (args.first(), args.get(1)) else { return 2 };
    let Ok(b) = std::fs::read(inp) else { return 2 };
    let Ok(v) = serde_json::from_slice::<Value>(&b) else { return 2 };
    let Some(scn) = v.get("property").and_then(Value::as_str).and_then(scen::by_property) else { return 2 };
    let seed = v.get("seed").and_then(Value::as_u64).unwrap_or(0);
    let Some(case) = v.get("case").cloned() else { return 2 };
    let Ok(viol) = serde_json::from_value::<Violation>(v.get("violation").cloned().unwrap_or(Value::Null)) else { return 2 };
    let budget = arg_val(args, "--budget").and_then(|s| s.parse().ok()).unwrap_or(300usize);
    let (mc, mv, used, hung) = minimise(scn.as_ref(), seed, case, &viol, budget);
    // final traced run of the minimised case
    let trace = if hung { vec![] } else { scn.run_json(seed, &mc, true).map(|o| o.trace).unwrap_or_default() };
    let out = json!({
        "property": scn.property(), "scenario": scn.name(), "seed": seed,
        "case": mc, "violation": mv, "signature": mv.signature,
        "minimisation": {"candidates_tried": used, "interrupted_by_hang": hung},
        "trace": truncate_trace(trace, 200),
    });
    if std::fs::write(outp, serde_json::to_vec_pretty(&out).unwrap_or_default()).is_err() {
        return 2;
    }
    let _ = std::fs::remove_dir_all(crate::framework::sandbox_base());
    0
}

/// Shrink a case whose run hangs: candidates are replayed in child processes (a hang ends the
/// process), up to 16 at a time; the first candidate (in shrink order) that still hangs is adopted.
fn minimise_hang(exe: &Path, scn: &dyn DynScenario, seed: u64, case: Value, violation: &Value, work: &Path) -> (Value, usize) {
    let mut cur = case;
    let mut tried = 0usize;
    for round in 0..12 {
        let cands: Vec<Value> = scn.shrink_json(&cur).into_iter().take(48).collect();
        if cands.is_empty() {
            break;
        }
        let mut adopted: Option<Value> = None;
        for (ci, chunk) in cands.chunks(16).enumerate() {
            let mut kids = Vec::new();
            for (i, c) in chunk.iter().enumerate() {
                let f = work.join(format!("hang-cand-{round}-{ci}-{i}.json"));
                let _ = std::fs::write(&f, serde_json::to_vec(&json!({"property": scn.property(), "seed": seed, "case": c, "violation": violation})).unwrap_or_default());
                let child = std::process::Command::new(exe).arg("replay").arg(&f).arg("--quiet").env("PATH", work.join("emptybin")).stderr(std::process::Stdio::null()).stdout(std::process::Stdio::piped()).spawn();
                kids.push((i, child));
            }
            let mut hit: Option<usize> = None;
            for (i, child) in kids {
                tried += 1;
                if let Ok(ch) = child {
                    if let Ok(o) = ch.wait_with_output() {
                        let same = String::from_utf8_lossy(&o.stdout).contains("REPLAY hang reproduced=true");
                        if o.status.code() == Some(1) && same && hit.is_none_or(|h| i < h) {
                            hit = Some(i);
                        }
                    }
                }
            }
            if let Some(i) = hit {
                adopted = Some(chunk[i].clone());
                break;
            }
        }
        match adopted {
            Some(c) => cur = c,
            None => break,
        }
    }
    (cur, tried)
}

// ---------------------------------------------------------------------------------------
// replay
// ---------------------------------------------------------------------------------------

pub fn cmd_replay(args: &[String]) -> i32 {
    let Some(file) = args.first() else { return 2 };
    let quiet = args.iter().any(|a| a == "--quiet");
    let Ok(b) = std::fs::read(file) else {
        eprintln!("cannot read {file}");
        return 2;
    };
    let Ok(v) = serde_json::from_slice::<Value>(&b) else {
        eprintln!("bad replay file");
        return 2;
    };
    let Some(scn) = v.get("property").and_then(Value::as_str).and_then(scen::by_property) else {
        eprintln!("unknown property in replay file");
        return 2;
    };
    let seed = v.get("seed").and_then(Value::as_u64).unwrap_or(0);
    let Some(case) = v.get("case") else { return 2 };
    let expect: Option<Violation> = v.get("violation").cloned().and_then(|x| serde_json::from_value(x).ok());
    let o: RunOutput = match scn.run_json(seed, case, true) {
        Ok(o) => o,
        Err(e) => {
            eprintln!("{e}");
            return 2;
        }
    };
    let _ = std::fs::remove_dir_all(crate::framework::sandbox_base());
    if !quiet {
        for e in &o.trace {
            println!("{e}");
        }
    }
    if let Some(e) = o.harness_error {
        eprintln!("HARNESS-ERROR {e}");
        return 2;
    }
    if o.hung {
        let same = expect.as_ref().is_some_and(|e| e.class == "hang");
        println!("REPLAY hang reproduced={same}");
        if same {
            println!("VIOLATION property={} replay={file}", scn.property());
        }
        return 1;
    }
    match (o.violation, expect) {
        (Some(v), Some(e)) => {
            let same = same_failure(&v, &e);
            println!("REPLAY violation oracle={} class={} same_as_recorded={same}", v.oracle, v.class);
            println!("REPLAY detail: {}", v.detail);
            println!("VIOLATION property={} replay={file}", scn.property());
            1
        }
        (Some(v), None) => {
            println!("REPLAY violation oracle={} class={}", v.oracle, v.class);
            println!("REPLAY detail: {}", v.detail);
            println!("VIOLATION property={} replay={file}", scn.property());
            1
        }
        (None, _) => {
            println!("REPLAY no violation (the recorded failure does not reproduce on the current tree)");
            0
        }
    }
}

// ---------------------------------------------------------------------------------------
// run (orchestrator)
// ---------------------------------------------------------------------------------------

fn spawn_worker(exe: &Path, prop: &str, tier: Tier, seed: u64, widx: u64, wcount: u64, runs: u64, start: u64, part: u64, out: &Path, deadline_s: u64) -> std::io::Result<std::process::Child> {
    let empty_path = out.join("emptybin");
    let _ = std::fs::create_dir_all(&empty_path);
    let log = std::fs::OpenOptions::new().create(true).append(true).open(out.join(format!("w{widx}.stderr")))?;
    std::process::Command::new(exe)
        .arg("worker")
        .arg(prop)
        .arg(tier.as_str())
        .args(["--seed", &seed.to_string()])
        .args(["--widx", &widx.to_string()])
        .args(["--wcount", &wcount.to_string()])
        .args(["--runs", &runs.to_string()])
        .args(["--start", &start.to_string()])
        .args(["--part", &part.to_string()])
        .args(["--deadline-s", &deadline_s.to_string()])
        .arg("--out")
        .arg(out)
        // the multi-layer cache shells out to sync(1); an empty PATH makes that spawn fail harmlessly
        .env("PATH", &empty_path)
        .env_remove("RUST_LOG")
        .stdout(std::process::Stdio::null())
        .stderr(log)
        .spawn()
}

pub fn cmd_run(args: &[String]) -> i32 {
    let Some(prop) = args.first() else { return 2 };
    let Some(scn) = scen::by_property(prop) else {
        eprintln!("unknown property/scenario {prop}");
        return 2;
    };
    let tier = parse_tier(args.get(1).map(String::as_str).unwrap_or("quick"));
    let seed = batch_seed(args);
    let ncpu = seams::real_cpu_count() as u64;
    let workers: u64 = arg_val(args, "--workers").and_then(|s| s.parse().ok()).unwrap_or(ncpu.clamp(1, 16));
    let runs: u64 = arg_val(args, "--runs").and_then(|s| s.parse().ok()).unwrap_or_else(|| scn.runs(tier));
    let deadline_s: u64 = arg_val(args, "--deadline-s")
        .or_else(|| std::env::var("VERIF_DEADLINE_S").ok())
        .and_then(|s| s.parse().ok())
        .unwrap_or(match tier {
            Tier::Quick => 150,
            Tier::Thorough => 1500,
        });
    let no_evidence = args.iter().any(|a| a == "--no-evidence");
    let t0 = seams::real_mono_ns();
    let exe = std::env::current_exe().expect("current_exe");
    let out = PathBuf::from(format!("/dev/shm/cascette-sim-batch.{}", std::process::id()));
    let _ = std::fs::remove_dir_all(&out);
    if std::fs::create_dir_all(&out).is_err() {
        eprintln!("cannot create {}", out.display());
        return 2;
    }
    println!(
        "sim: property={} scenario={} tier={} VERIF_SEED={} runs={} workers={}",
        scn.property(),
        scn.name(),
        tier.as_str(),
        seed,
        runs,
        workers
    );

    // --- run the workers, restarting a worker that had to abandon a hung run ---
    let mut children: Vec<(u64, u64, std::process::Child)> = Vec::new();
    for w in 0..workers {
        match spawn_worker(&exe, scn.property(), tier, seed, w, workers, runs, 0, 0, &out, deadline_s) {
            Ok(c) => children.push((w, 0, c)),
            Err(e) => {
                eprintln!("cannot spawn worker: {e}");
                return 2;
            }
        }
    }
    let mut hangs_not_reproduced = 0u64;
    let mut harness_errors: Vec<String> = Vec::new();
    let mut parts: Vec<(u64, u64)> = Vec::new();
    let mut hang_restarts = 0u64;
    while let Some((w, part, mut c)) = children.pop() {
        let status = c.wait();
        let code = status.ok().and_then(|s| s.code());
        parts.push((w, part));
        match code {
            Some(0) => {}
            Some(3) => {
                // resume after the hung run, in a fresh process
                let summary: Value = std::fs::read(out.join(format!("w{w}.{part}.json"))).ok().and_then(|b| serde_json::from_slice(&b).ok()).unwrap_or(Value::Null);
                let resume = summary.get("resume").and_then(Value::as_u64).unwrap_or(runs);
                hang_restarts += 1;
                let left = deadline_s.saturating_sub((seams::real_mono_ns() - t0) / 1_000_000_000).max(1);
                // a handful of hung runs is enough evidence; every further one costs a whole watchdog period
                let within_deadline = (seams::real_mono_ns() - t0) / 1_000_000_000 < deadline_s;
                if hang_restarts < 32 && resume < runs && within_deadline {
                    match spawn_worker(&exe, scn.property(), tier, seed, w, workers, runs, resume, part + 1, &out, left) {
                        Ok(c) => children.push((w, part + 1, c)),
                        Err(e) => harness_errors.push(format!("cannot respawn worker {w}: {e}")),
                    }
                }
            }
            other => {
                let tail = std::fs::read_to_string(out.join(format!("w{w}.stderr"))).unwrap_or_default();
                let tail: String = tail.lines().rev().take(8).collect::<Vec<_>>().into_iter().rev().collect::<Vec<_>>().join(" | ");
                harness_errors.push(format!("worker {w} part {part} exited abnormally ({other:?}): {tail}"));
            }
        }
    }

    // --- merge ---
    let mut total_runs = 0u64;
    let mut nontrivial_runs = 0u64;
    let mut violating_runs = 0u64;
    let mut virt_ns: u128 = 0;
    let mut counters: BTreeMap<String, u64> = BTreeMap::new();
    let mut rechecks = 0u64;
    let mut samples: Vec<Value> = Vec::new();
    let mut sigs: BTreeMap<String, (u64, Vec<Value>)> = BTreeMap::new();
    let mut distinct_all: HashSet<u64> = HashSet::new();
    let mut distinct_nt: HashSet<u64> = HashSet::new();
    let mut states: HashSet<u64> = HashSet::new();
    let mut stopped_early = false;
    for (w, part) in &parts {
        let Some(s) = std::fs::read(out.join(format!("w{w}.{part}.json"))).ok().and_then(|b| serde_json::from_slice::<Value>(&b).ok()) else {
            continue;
        };
        total_runs += s["runs"].as_u64().unwrap_or(0);
        nontrivial_runs += s["nontrivial"].as_u64().unwrap_or(0);
        violating_runs += s["violating_runs"].as_u64().unwrap_or(0);
        rechecks += s["rechecks"].as_u64().unwrap_or(0);
        stopped_early |= s["stopped_early"].as_bool().unwrap_or(false);
        virt_ns += s["virt_ns"].as_str().and_then(|x| x.parse::<u128>().ok()).unwrap_or(0);
        if let Some(c) = s["counters"].as_object() {
            for (k, v) in c {
                *counters.entry(k.clone()).or_insert(0) += v.as_u64().unwrap_or(0);
            }
        }
        if let Some(a) = s["samples"].as_array() {
            samples.extend(a.iter().cloned());
        }
        if let Some(a) = s["harness_errors"].as_array() {
            harness_errors.extend(a.iter().filter_map(|x| x.as_str().map(String::from)));
        }
        if let Some(o) = s["sigs"].as_object() {
            for (sig, b) in o {
                let e = sigs.entry(sig.clone()).or_insert((0, vec![]));
                e.0 += b["count"].as_u64().unwrap_or(0);
                if let Some(f) = b["first"].as_array() {
                    e.1.extend(f.iter().cloned());
                }
            }
        }
        if let Ok(b) = std::fs::read(out.join(format!("w{w}.{part}.bin"))) {
            for rec in b.chunks_exact(9) {
                let h = u64::from_le_bytes(rec[..8].try_into().unwrap_or([0; 8]));
                distinct_all.insert(h);
                if rec[8] != 0 {
                    distinct_nt.insert(h);
                }
            }
        }
        if let Ok(b) = std::fs::read(out.join(format!("w{w}.{part}.states"))) {
            for rec in b.chunks_exact(8) {
                states.insert(u64::from_le_bytes(rec.try_into().unwrap_or([0; 8])));
            }
        }
    }
    samples.truncate(3);

    // --- violations: known findings, minimisation, replay in a fresh process ---
    let known = load_known();
    let replay_dir = verif_dir().join("replays").join(scn.property());
    let _ = std::fs::create_dir_all(&replay_dir);
    let mut known_seen: BTreeMap<String, (String, u64)> = BTreeMap::new();
    let mut new_violations: Vec<(String, PathBuf, u64)> = Vec::new();
    let mut exit_code = 0;
    let mut handled_new = 0;
    for (sig, (count, firsts)) in &mut sigs {
        if let Some(k) = match_known(&known, scn.property(), sig) {
            let e = known_seen.entry(k.id.clone()).or_insert((k.what.clone(), 0));
            e.1 += *count;
            continue;
        }
        if handled_new >= 6 {
            // still a violation; not minimised to bound the time spent
            exit_code = 1;
            println!("VIOLATION-UNMINIMISED property={} signature={sig} runs={count}", scn.property());
            continue;
        }
        handled_new += 1;
        firsts.sort_by_key(|f| f["index"].as_u64().unwrap_or(u64::MAX));
        let Some(first) = firsts.first() else { continue };
        let rseed = first["seed"].as_u64().unwrap_or(0);
        let tmp_in = out.join(format!("min-in-{handled_new}.json"));
        let replay_path = replay_dir.join(format!("{}-{}.json", scn.name(), rseed));
        let _ = std::fs::write(
            &tmp_in,
            serde_json::to_vec(&json!({"property": scn.property(), "seed": rseed, "case": first["case"], "violation": first["violation"]})).unwrap_or_default(),
        );
        let is_hang = first["violation"]["class"].as_str() == Some("hang");
        let mut minimised_ok = false;
        if !is_hang {
            let st = std::process::Command::new(&exe)
                .arg("minimize")
                .arg(&tmp_in)
                .arg(&replay_path)
                .env("PATH", out.join("emptybin"))
                .stdout(std::process::Stdio::null())
                .stderr(std::process::Stdio::null())
                .status();
            minimised_ok = st.map(|s| s.success()).unwrap_or(false) && replay_path.exists();
        }
        if is_hang {
            // a hung candidate costs the whole watchdog: shrink with parallel child replays, few rounds
            let (mc, tried) = minimise_hang(&exe, scn.as_ref(), rseed, crate::framework::apply_patch(&first["case"], first["violation"].get("patch")), &first["violation"], &out);
            let _ = std::fs::write(
                &replay_path,
                serde_json::to_vec_pretty(&json!({
                    "property": scn.property(), "scenario": scn.name(), "seed": rseed, "case": mc,
                    "violation": first["violation"], "signature": sig,
                    "minimisation": {"candidates_tried": tried, "method": "hang: each candidate replayed in a child process, 16 at a time"}
                }))
                .unwrap_or_default(),
            );
            minimised_ok = true;
        }
        if !minimised_ok {
            let _ = std::fs::write(
                &replay_path,
                serde_json::to_vec_pretty(&json!({
                    "property": scn.property(), "scenario": scn.name(), "seed": rseed, "case": crate::framework::apply_patch(&first["case"], first["violation"].get("patch")),
                    "violation": first["violation"], "signature": sig, "minimisation": {"candidates_tried": 0, "note": "not minimised"}
                }))
                .unwrap_or_default(),
            );
        }
        // the signature may have changed under minimisation: re-check known findings
        let final_sig = std::fs::read(&replay_path)
            .ok()
            .and_then(|b| serde_json::from_slice::<Value>(&b).ok())
            .and_then(|v| v["signature"].as_str().map(String::from))
            .unwrap_or_else(|| sig.clone());
        // replay in a fresh process
        let rp = std::process::Command::new(&exe).arg("replay").arg(&replay_path).arg("--quiet").env("PATH", out.join("emptybin")).output();
        let reproduced = rp.as_ref().map(|o| o.status.code() == Some(1)).unwrap_or(false);
        if !reproduced && is_hang {
            // The watchdog measures REAL time, the one thing the simulator does not control: a run that was
            // abandoned as hung but completes when its case is replayed in a fresh process was slow (a loaded or
            // slow machine), not stuck. It is reported in the evidence and on stderr, not as a violation or an error.
            eprintln!("NOTE: a run abandoned by the real-time watchdog (seed {rseed}) completes when replayed in a fresh process: attributed to machine load, not counted");
            hangs_not_reproduced += *count;
            let _ = std::fs::remove_file(&replay_path);
            continue;
        }
        if !reproduced {
            harness_errors.push(format!(
                "violation with signature {sig} (seed {rseed}) did not reproduce from its replay file {} in a fresh process",
                replay_path.display()
            ));
            continue;
        }
        if final_sig != *sig {
            if let Some(k) = match_known(&known, scn.property(), &final_sig) {
                // minimisation reduced it to a known finding: it IS that finding
                let e = known_seen.entry(k.id.clone()).or_insert((k.what.clone(), 0));
                e.1 += *count;
                let _ = std::fs::remove_file(&replay_path);
                continue;
            }
        }
        exit_code = 1;
        new_violations.push((sig.clone(), replay_path, *count));
    }

    // --- regression corpus: minimal replays of findings that were fixed; each must stay clean ---
    let mut regression_files = 0u64;
    let mut regression_reproduced = 0u64;
    if let Ok(rd) = std::fs::read_dir(verif_dir().join("regressions").join(scn.property())) {
        let mut files: Vec<PathBuf> = rd.filter_map(|e| e.ok().map(|e| e.path())).filter(|p| p.extension().is_some_and(|x| x == "json")).collect();
        files.sort();
        for f in files {
            regression_files += 1;
            let rp = std::process::Command::new(&exe).arg("replay").arg(&f).arg("--quiet").env("PATH", out.join("emptybin")).output();
            match rp.as_ref().ok().and_then(|o| o.status.code()) {
                Some(0) => {}
                Some(1) => {
                    regression_reproduced += 1;
                    let sig = std::fs::read(&f)
                        .ok()
                        .and_then(|b| serde_json::from_slice::<Value>(&b).ok())
                        .and_then(|v| v["signature"].as_str().map(String::from))
                        .unwrap_or_else(|| "regression".to_string());
                    if let Some(k) = match_known(&known, scn.property(), &sig) {
                        let e = known_seen.entry(k.id.clone()).or_insert((k.what.clone(), 0));
                        e.1 += 1;
                    } else {
                        exit_code = 1;
                        new_violations.push((format!("{sig} (regression corpus)"), f.clone(), 1));
                    }
                }
                other => harness_errors.push(format!("regression replay {} ended abnormally ({other:?})", f.display())),
            }
        }
    }

    for (id, (what, n)) in &known_seen {
        println!("KNOWN-FINDING: property={} {id}: {what} (seen in {n} runs)", scn.property());
    }
    for (sig, path, n) in &new_violations {
        println!("VIOLATION property={} replay={}", scn.property(), path.display());
        println!("  signature={sig} violating_runs={n}");
        if let Some(v) = std::fs::read(path).ok().and_then(|b| serde_json::from_slice::<Value>(&b).ok()) {
            println!("  detail: {}", v["violation"]["detail"].as_str().unwrap_or("").split_whitespace().collect::<Vec<_>>().join(" "));
        }
    }

    let wall_s = (seams::real_mono_ns() - t0) as f64 / 1e9;
    // --- evidence ---
    let fault_counts: BTreeMap<&String, &u64> = counters.iter().filter(|(k, _)| k.starts_with("fault:")).collect();
    let reached: BTreeMap<&String, &u64> = counters.iter().filter(|(k, _)| k.starts_with("reached:")).collect();
    let other: BTreeMap<&String, &u64> = counters.iter().filter(|(k, _)| !k.starts_with("reached:") && !k.starts_with("fault:")).collect();
    let evaluations = counters.get("evaluations").copied().unwrap_or(total_runs);
    let evidence = json!({
        "property_id": scn.property(),
        "tier": tier.as_str(),
        "seed": seed as i64,
        "level": scn.level(),
        "coverage": {
            "evaluations": evaluations,
            "evaluation_unit": scn.eval_unit(),
            "distinct_nontrivial": distinct_nt.len(),
            "rule": scn.rule(),
            "samples": samples,
            "simulated_runs": total_runs,
            "runs_planned": runs,
            "stopped_at_deadline": stopped_early,
            "nontrivial_runs": nontrivial_runs,
            "distinct_observation_hashes": distinct_all.len(),
            "distinct_abstract_states": states.len(),
            "runs_per_hour": if wall_s > 0.0 { (total_runs as f64 / wall_s * 3600.0) as u64 } else { 0 },
            "seeds_per_hour": if wall_s > 0.0 { (total_runs as f64 / wall_s * 3600.0) as u64 } else { 0 },
            "simulated_time_s": ((virt_ns / 1_000_000) as f64 / 1000.0).max(counters.get("tokio_virtual_ms").copied().unwrap_or(0) as f64 / 1000.0),
            "faults_fired": fault_counts,
            "reached": reached,
            "counters": other,
            "in_process_determinism_rechecks": rechecks,
            "runs_abandoned_by_the_real_time_watchdog_that_complete_on_replay": hangs_not_reproduced,
            "regression_corpus": {"replay_files": regression_files, "reproduced": regression_reproduced},
            "workers": workers,
            "known_findings_seen": known_seen.iter().map(|(k, (_, n))| (k.clone(), json!(n))).collect::<Map<String, Value>>(),
            "violating_runs": violating_runs,
            "components": scn.components().iter().map(|(c, k)| json!({"component": c, "in_simulation": k})).collect::<Vec<_>>(),
            "exhaustive": false
        },
        "assumptions": scn.assumptions(),
        "wall_s": wall_s,
        "violations": new_violations.len()
    });
    if !no_evidence {
        let evdir = verif_dir().join("evidence");
        let _ = std::fs::create_dir_all(&evdir);
        let p = evdir.join(format!("{}.json", scn.property()));
        if let Err(e) = std::fs::write(&p, serde_json::to_vec_pretty(&evidence).unwrap_or_default()) {
            harness_errors.push(format!("cannot write evidence {}: {e}", p.display()));
        }
    }
    let _ = std::fs::remove_dir_all(&out);
    println!(
        "sim: {} runs ({} non-trivial, {} distinct non-trivial), {} violating runs ({} known), {:.1}s wall, {:.0} runs/s, simulated {:.1}s",
        total_runs,
        nontrivial_runs,
        distinct_nt.len(),
        violating_runs,
        known_seen.values().map(|(_, n)| *n).sum::<u64>(),
        wall_s,
        total_runs as f64 / wall_s.max(1e-9),
        (virt_ns / 1_000_000) as f64 / 1000.0
    );
    let _ = std::io::stdout().flush();
    if !harness_errors.is_empty() {
        for e in harness_errors.iter().take(10) {
            eprintln!("HARNESS-ERROR {e}");
        }
        if exit_code == 0 {
            return 2;
        }
    }
    if total_runs == 0 {
        eprintln!("HARNESS-ERROR no runs executed");
        return 2;
    }
    exit_code
}

// ---------------------------------------------------------------------------------------
// self tests
// ---------------------------------------------------------------------------------------

pub fn cmd_selftest(args: &[String]) -> i32 {
    match args.first().map(String::as_str) {
        Some("hashes") => {
            // sim selftest hashes <Cxx> <n> [--seed S] : print per-run observation hashes (for cross-process diffing)
            let Some(scn) = args.get(1).and_then(|p| scen::by_property(p)) else { return 2 };
            let n: u64 = args.get(2).and_then(|s| s.parse().ok()).unwrap_or(100);
            let seed = batch_seed(args);
            let stride: u64 = arg_val(args, "--stride").and_then(|s| s.parse().ok()).unwrap_or(1);
            let offset: u64 = arg_val(args, "--offset").and_then(|s| s.parse().ok()).unwrap_or(0);
            let mut i = offset;
            while i < n {
                let rs = run_seed(seed, scn.name(), i);
                crate::framework::set_run_index(i);
                let o = scn.run_seed(rs, Tier::Quick, false);
                println!(
                    "{i} {rs} {:016x} {} {}",
                    o.trace_hash,
                    o.violation.as_ref().map(|v| v.signature.as_str()).unwrap_or("-"),
                    if o.hung { "HUNG" } else { "" }
                );
                if o.hung {
                    return 3;
                }
                i += stride;
            }
            let _ = std::fs::remove_dir_all(crate::framework::sandbox_base());
            if std::env::var_os("SIM_COUNT_SYSCALLS").is_some() {
                // kernel entries made through the interposers' pass-through, by syscall; the line itself is
                // one more write(2), counted here so the figure matches strace's for the whole process
                use std::io::Write as _;
                let c = |n: libc::c_long| crate::seams::raw_count(n);
                let line = format!(
                    "RAWCOUNT write={} writev={} pwrite64={} ftruncate={} fsync={} fdatasync={} rename={} link={} unlink={} mkdir={}\n",
                    c(libc::SYS_write) + 1,
                    c(libc::SYS_writev),
                    c(libc::SYS_pwrite64),
                    c(libc::SYS_ftruncate),
                    c(libc::SYS_fsync),
                    c(libc::SYS_fdatasync),
                    c(libc::SYS_rename) + c(libc::SYS_renameat) + c(libc::SYS_renameat2),
                    c(libc::SYS_link) + c(libc::SYS_linkat),
                    c(libc::SYS_unlink) + c(libc::SYS_unlinkat) + c(libc::SYS_rmdir),
                    c(libc::SYS_mkdir) + c(libc::SYS_mkdirat),
                );
                let _ = std::io::stderr().write_all(line.as_bytes());
            }
            0
        }
        _ => {
            eprintln!("usage: sim selftest hashes <Cxx> <n> [--seed S] [--stride k --offset j]");
            2
        }
    }
}

//! The simulator's only source of randomness: splitmix64 for seed derivation and
//! xoshiro256** for the per-run stream. Own code so no dependency upgrade can change
//! the stream a seed produces.

#[inline]
pub fn splitmix64(state: &mut u64) -> u64 {
    *state = state.wrapping_add(0x9E37_79B9_7F4A_7C15);
    let mut z = *state;
    z = (z ^ (z >> 30)).wrapping_mul(0xBF58_476D_1CE4_E5B9);
    z = (z ^ (z >> 27)).wrapping_mul(0x94D0_49BB_1331_11EB);
    z ^ (z >> 31)
}

pub fn mix(a: u64) -> u64 {
    let mut s = a;
    splitmix64(&mut s)
}

pub fn fnv1a(data: &[u8]) -> u64 {
    let mut h: u64 = 0xcbf2_9ce4_8422_2325;
    for b in data {
        h ^= u64::from(*b);
        h = h.wrapping_mul(0x0000_0100_0000_01B3);
    }
    h
}

/// Seed of run `i` of scenario `scen` in the batch seeded by `batch`.
pub fn run_seed(batch: u64, scen: &str, i: u64) -> u64 {
    mix(batch ^ fnv1a(scen.as_bytes()).rotate_left(17) ^ mix(i.wrapping_add(0x51ed_27)))
}

#[derive(Clone, Debug)]
pub struct Rng {
    s: [u64; 4],
}

impl Rng {
    pub fn new(seed: u64) -> Self {
        let mut sm = seed;
        let s = [
            splitmix64(&mut sm),
            splitmix64(&mut sm),
            splitmix64(&mut sm),
            splitmix64(&mut sm),
        ];
        Self { s }
    }

    /// Independent sub-stream (for entropy seam, scheduler, network…).
    pub fn fork(&mut self, label: &str) -> Rng {
        let a = self.next_u64();
        Rng::new(a ^ fnv1a(label.as_bytes()))
    }

    #[inline]
    pub fn next_u64(&mut self) -> u64 {
        let result = self.s[1].wrapping_mul(5).rotate_left(7).wrapping_mul(9);
        let t = self.s[1] << 17;
        self.s[2] ^= self.s[0];
        self.s[3] ^= self.s[1];
        self.s[1] ^= self.s[2];
        self.s[0] ^= self.s[3];
        self.s[2] ^= t;
        self.s[3] = self.s[3].rotate_left(45);
        result
    }

    /// Uniform in 0..n (n > 0).
    #[inline]
    pub fn below(&mut self, n: u64) -> u64 {
        debug_assert!(n > 0);
        // multiply-shift; bias is irrelevant here
        ((u128::from(self.next_u64()) * u128::from(n)) >> 64) as u64
    }

    #[inline]
    pub fn usize_below(&mut self, n: usize) -> usize {
        self.below(n as u64) as usize
    }

    /// Uniform in lo..=hi.
    pub fn range(&mut self, lo: u64, hi: u64) -> u64 {
        lo + self.below(hi - lo + 1)
    }

    pub fn chance(&mut self, num: u64, den: u64) -> bool {
        self.below(den) < num
    }

    pub fn pick<'a, T>(&mut self, xs: &'a [T]) -> &'a T {
        &xs[self.usize_below(xs.len())]
    }

    /// Index drawn with the given integer weights.
    pub fn weighted(&mut self, weights: &[u32]) -> usize {
        let total: u64 = weights.iter().map(|w| u64::from(*w)).sum();
        let mut x = self.below(total.max(1));
        for (i, w) in weights.iter().enumerate() {
            let w = u64::from(*w);
            if x < w {
                return i;
            }
            x -= w;
        }
        weights.len() - 1
    }

    pub fn fill(&mut self, buf: &mut [u8]) {
        for chunk in buf.chunks_mut(8) {
            let v = self.next_u64().to_le_bytes();
            chunk.copy_from_slice(&v[..chunk.len()]);
        }
    }

    pub fn bytes(&mut self, n: usize) -> Vec<u8> {
        let mut v = vec![0u8; n];
        self.fill(&mut v);
        v
    }
}

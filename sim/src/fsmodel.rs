//! Simulated disk: crash images from a recorded disk-op log.
//!
//! An image is the directory tree a restart would find if the machine stopped at a
//! given op index under one of two persistence models:
//!
//! * **P – process death**: everything issued before the crash index took effect
//!   completely (the OS survives, the page cache is the truth); the op AT the crash
//!   index, if it is a write, took effect for a chosen prefix of its bytes.
//! * **D – power loss**: directory operations (create, rename, unlink, mkdir, link)
//!   persist as an in-order prefix; a file's *content* is only guaranteed up to that
//!   file's last fsync - whatever was written after it is replaced by a tear variant:
//!   a prefix, zeros (size updated, data not), stale bytes, or nothing at all.

use crate::seams::DiskOp;
use std::collections::{BTreeMap, BTreeSet};
use std::path::Path;

#[derive(Clone, Debug, Default)]
struct Inode {
    data: Vec<u8>,
    /// content as of the last fsync (or as found when recording began)
    synced: Vec<u8>,
}

#[derive(Clone, Debug, Default)]
pub struct Fs {
    inodes: Vec<Inode>,
    names: BTreeMap<String, usize>,
    dirs: BTreeSet<String>,
}

#[derive(Clone, Copy, Debug, PartialEq, Eq)]
pub enum Tear {
    /// nothing written since the last fsync reached the disk
    Old,
    /// the first `n` bytes of the current content reached the disk (file length n)
    Prefix(usize),
    /// the size was updated, the un-synced bytes read as zero
    Zeros,
    /// the size was updated, the un-synced bytes hold stale data
    Stale,
    /// everything reached the disk
    Full,
}
impl Tear {
    pub fn kind(&self) -> &'static str {
        match self {
            Tear::Old => "old",
            Tear::Prefix(_) => "prefix",
            Tear::Zeros => "zeros",
            Tear::Stale => "stale",
            Tear::Full => "full",
        }
    }
}

fn rel(root: &str, p: &str) -> String {
    p.strip_prefix(root).unwrap_or(p).trim_start_matches('/').to_string()
}

impl Fs {
    /// Snapshot a real directory (everything found is considered durable).
    pub fn snapshot(root: &Path) -> Fs {
        let mut fs = Fs::default();
        fn walk(fs: &mut Fs, root: &Path, dir: &Path) {
            let Ok(rd) = std::fs::read_dir(dir) else { return };
            let mut entries: Vec<_> = rd.flatten().collect();
            entries.sort_by_key(std::fs::DirEntry::file_name);
            for e in entries {
                let p = e.path();
                let r = p.strip_prefix(root).map(|x| x.to_string_lossy().into_owned()).unwrap_or_default();
                if p.is_dir() {
                    fs.dirs.insert(r);
                    walk(fs, root, &p);
                } else if let Ok(b) = std::fs::read(&p) {
                    fs.inodes.push(Inode { data: b.clone(), synced: b });
                    fs.names.insert(r, fs.inodes.len() - 1);
                }
            }
        }
        walk(&mut fs, root, root);
        fs
    }

    pub fn apply(&mut self, root: &str, op: &DiskOp) {
        match op {
            DiskOp::Create { path, existed, trunc } => {
                let r = rel(root, path);
                if *existed {
                    if *trunc {
                        if let Some(i) = self.names.get(&r) {
                            self.inodes[*i].data.clear();
                        }
                    }
                } else {
                    self.inodes.push(Inode::default());
                    self.names.insert(r, self.inodes.len() - 1);
                }
            }
            DiskOp::Write { path, off, data } => self.write_prefix(root, path, *off, data, data.len()),
            DiskOp::Truncate { path, len } => {
                if let Some(i) = self.names.get(&rel(root, path)) {
                    self.inodes[*i].data.resize(*len as usize, 0);
                }
            }
            DiskOp::Fsync { path } => {
                if let Some(i) = self.names.get(&rel(root, path)) {
                    let d = self.inodes[*i].data.clone();
                    self.inodes[*i].synced = d;
                }
            }
            DiskOp::FsyncDir { .. } => {}
            DiskOp::Rename { from, to } => {
                if let Some(i) = self.names.remove(&rel(root, from)) {
                    self.names.insert(rel(root, to), i);
                }
            }
            DiskOp::Unlink { path } => {
                self.names.remove(&rel(root, path));
            }
            DiskOp::Mkdir { path } => {
                self.dirs.insert(rel(root, path));
            }
            DiskOp::Rmdir { path } => {
                self.dirs.remove(&rel(root, path));
            }
            DiskOp::Link { from, to } => {
                if let Some(i) = self.names.get(&rel(root, from)).copied() {
                    self.names.insert(rel(root, to), i);
                }
            }
        }
    }

    pub fn write_prefix(&mut self, root: &str, path: &str, off: u64, data: &[u8], n: usize) {
        if let Some(i) = self.names.get(&rel(root, path)) {
            let d = &mut self.inodes[*i].data;
            let off = off as usize;
            let n = n.min(data.len());
            if d.len() < off + n {
                d.resize(off + n, 0);
            }
            d[off..off + n].copy_from_slice(&data[..n]);
        }
    }

    /// Names bound to an inode whose content differs from what was last synced.
    pub fn dirty_names(&self) -> Vec<(&String, usize, usize)> {
        self.names
            .iter()
            .filter(|(_, i)| self.inodes[**i].data != self.inodes[**i].synced)
            .map(|(n, i)| (n, self.inodes[*i].data.len(), self.inodes[*i].synced.len()))
            .collect()
    }

    /// Content of `name` as persisted under a tear variant (power-loss model).
    fn torn(&self, i: usize, tear: Tear) -> Vec<u8> {
        let ino = &self.inodes[i];
        if ino.data == ino.synced {
            return ino.data.clone();
        }
        match tear {
            Tear::Full => ino.data.clone(),
            Tear::Old => ino.synced.clone(),
            Tear::Prefix(n) => ino.data[..n.min(ino.data.len())].to_vec(),
            Tear::Zeros | Tear::Stale => {
                // bytes equal to the synced content are on disk; the rest never arrived
                let mut out = vec![0u8; ino.data.len()];
                for (j, b) in out.iter_mut().enumerate() {
                    let same = ino.synced.get(j) == ino.data.get(j);
                    *b = if same {
                        ino.data[j]
                    } else if tear == Tear::Zeros {
                        0
                    } else {
                        // stale: what the range held before, or an arbitrary pattern for new space
                        ino.synced.get(j).copied().unwrap_or((0xA7u8).wrapping_add((j as u8).wrapping_mul(31)))
                    };
                }
                out
            }
        }
    }

    /// Write the image into `dst` (which must be empty). `tear` is applied to every
    /// inode with un-synced content; `None` means "process death": contents as they are.
    pub fn materialise(&self, dst: &Path, tear: Option<Tear>) -> std::io::Result<()> {
        std::fs::create_dir_all(dst)?;
        for d in &self.dirs {
            std::fs::create_dir_all(dst.join(d))?;
        }
        for (name, i) in &self.names {
            let p = dst.join(name);
            if let Some(parent) = p.parent() {
                std::fs::create_dir_all(parent)?;
            }
            let content = match tear {
                None => self.inodes[*i].data.clone(),
                Some(t) => self.torn(*i, t),
            };
            std::fs::write(p, content)?;
        }
        Ok(())
    }

    pub fn file(&self, name: &str) -> Option<&[u8]> {
        self.names.get(name).map(|i| self.inodes[*i].data.as_slice())
    }
    pub fn names(&self) -> impl Iterator<Item = &String> {
        self.names.keys()
    }
}

/// One crash point: the image builder, a label, and the persistence model.
#[derive(Clone, Debug)]
pub struct CrashPoint {
    /// ops[..k] happened
    pub k: usize,
    /// "P" | "D"
    pub model: &'static str,
    /// partial prefix of op k (P, op k is a write)
    pub partial: Option<usize>,
    pub tear: Option<Tear>,
}

impl CrashPoint {
    pub fn label(&self, log: &[DiskOp]) -> String {
        let at = log.get(self.k).map(DiskOp::kind).unwrap_or("end");
        let after = if self.k > 0 { log[self.k - 1].kind() } else { "start" };
        match (self.model, self.partial, self.tear) {
            ("P", Some(n), _) => format!("P,k={},in={at},partial={n}", self.k),
            ("P", None, _) => format!("P,k={},after={after},before={at}", self.k),
            (_, _, Some(t)) => format!("D,k={},after={after},before={at},tear={}{}", self.k, t.kind(), if let Tear::Prefix(n) = t { format!("({n})") } else { String::new() }),
            _ => format!("{},k={}", self.model, self.k),
        }
    }
    /// Short class used in signatures (no indices).
    pub fn class(&self, log: &[DiskOp]) -> String {
        let at = log.get(self.k).map(DiskOp::kind).unwrap_or("end");
        let after = if self.k > 0 { log[self.k - 1].kind() } else { "start" };
        match (self.model, self.partial, self.tear) {
            ("P", Some(_), _) => format!("P/in={at}"),
            ("P", None, _) => format!("P/after={after},before={at}"),
            (_, _, Some(t)) => format!("D/after={after},before={at},tear={}", t.kind()),
            _ => self.model.to_string(),
        }
    }
}

fn prefix_points(len: usize, exhaustive: bool) -> Vec<usize> {
    let mut v: BTreeSet<usize> = BTreeSet::new();
    if len == 0 {
        return vec![];
    }
    if exhaustive && len <= 64 {
        v.extend(0..len);
    } else {
        v.insert(0);
        v.insert(1.min(len - 1));
        v.insert(len / 2);
        v.insert(len - 1);
        if exhaustive {
            // every 512-byte page boundary +-1, thinned to at most ~48 points
            let pages = len / 512;
            let step = (pages / 16).max(1);
            let mut p = 1;
            while p <= pages {
                let b = p * 512;
                for x in [b.saturating_sub(1), b, b + 1] {
                    if x < len {
                        v.insert(x);
                    }
                }
                p += step;
            }
            // format boundaries the page thinning would skip: every 64 KiB boundary +-1 (the .idx update
            // section starts on one: a file cut exactly there still parses as "no pending updates")
            let mut b = 0x1_0000usize;
            while b <= len {
                for x in [b - 1, b, b + 1] {
                    if x < len {
                        v.insert(x);
                    }
                }
                b += 0x1_0000;
            }
        }
    }
    v.into_iter().collect()
}

/// Enumerate crash points for a log, given the file system state the log starts from.
/// `is_temp` says whether a (relative) name is a temporary file that loaders ignore by
/// construction; content variants are enumerated exhaustively only where torn content
/// is exposed under a real name.
pub fn enumerate(root: &str, base: &Fs, log: &[DiskOp], is_temp: &dyn Fn(&str) -> bool) -> Vec<(CrashPoint, Fs)> {
    let mut out = Vec::new();
    let mut cur = base.clone();
    for k in 0..=log.len() {
        // ---- P: crash exactly before op k ----
        out.push((CrashPoint { k, model: "P", partial: None, tear: None }, cur.clone()));
        // ---- P: crash inside write k ----
        if let Some(DiskOp::Write { path, off, data }) = log.get(k) {
            let exposed = !is_temp(&rel(root, path));
            for n in prefix_points(data.len(), exposed) {
                if n == 0 {
                    continue; // same as "before op k"
                }
                let mut f = cur.clone();
                f.write_prefix(root, path, *off, data, n);
                out.push((CrashPoint { k, model: "P", partial: Some(n), tear: None }, f));
            }
        }
        // ---- D: power loss before op k ----
        let dirty = cur.dirty_names();
        if !dirty.is_empty() {
            let exposed = dirty.iter().any(|(n, _, _)| !is_temp(n));
            let maxlen = dirty.iter().map(|(_, l, _)| *l).max().unwrap_or(0);
            let mut tears = vec![Tear::Old, Tear::Zeros, Tear::Stale];
            for n in prefix_points(maxlen, exposed) {
                tears.push(Tear::Prefix(n));
            }
            if !exposed {
                tears.truncate(2);
                tears.push(Tear::Prefix(maxlen / 2));
            }
            for t in tears {
                out.push((CrashPoint { k, model: "D", partial: None, tear: Some(t) }, cur.clone()));
            }
        }
        if let Some(op) = log.get(k) {
            cur.apply(root, op);
        }
    }
    out
}

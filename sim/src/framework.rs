//! Scenario interface, per-run isolation, run context (trace / observation hash /
//! counters), and the type-erased adapter the orchestrator uses.

use crate::prng::{fnv1a, Rng};
use crate::seams;
use serde::{de::DeserializeOwned, Serialize};
use serde_json::{json, Value};
use std::collections::BTreeMap;
use std::path::PathBuf;
use std::sync::atomic::{AtomicU64, Ordering};
use std::sync::Mutex;

#[derive(Clone, Copy, Debug, PartialEq, Eq)]
pub enum Tier {
    Quick,
    Thorough,
}
impl Tier {
    pub fn as_str(self) -> &'static str {
        match self {
            Tier::Quick => "quick",
            Tier::Thorough => "thorough",
        }
    }
}

#[derive(Clone, Debug, Serialize, serde::Deserialize)]
pub struct Violation {
    /// which oracle fired, e.g. "C17.model.order"
    pub oracle: String,
    /// violation class, stable under minimisation, e.g. "touch_refused"
    pub class: String,
    /// narrow signature used for known-finding matching
    pub signature: String,
    pub detail: String,
    /// decisions observed during the failing run that are not part of the generated case (e.g. the
    /// thread schedule): a JSON object merged into the case so that replay executes them explicitly
    #[serde(default, skip_serializing_if = "Option::is_none")]
    pub patch: Option<Value>,
}

impl Violation {
    pub fn new(oracle: &str, class: &str, signature: impl Into<String>, detail: impl Into<String>) -> Self {
        Self { oracle: oracle.into(), class: class.into(), signature: signature.into(), detail: detail.into(), patch: None }
    }
    pub fn with_patch(mut self, patch: Value) -> Self {
        self.patch = Some(patch);
        self
    }
}

/// Merge the top-level keys of `patch` into `case`.
pub fn apply_patch(case: &Value, patch: Option<&Value>) -> Value {
    let mut out = case.clone();
    if let (Some(o), Some(p)) = (out.as_object_mut(), patch.and_then(Value::as_object)) {
        for (k, v) in p {
            o.insert(k.clone(), v.clone());
        }
    }
    out
}

/// Per-run context handed to a scenario's `execute`.
pub struct Ctx {
    pub seed: u64,
    /// Sandbox directory of this run (exists, empty).
    pub root: PathBuf,
    obs: u64,
    trace: Option<Vec<Value>>,
    seq: u64,
    pub counters: BTreeMap<String, u64>,
    pub states: Vec<u64>,
    /// state-changing operations executed (for the non-triviality rule)
    pub mutations: u32,
    /// faults that actually fired
    pub faults: u32,
    /// scenario says faults are part of its non-triviality rule
    pub needs_fault: bool,
}

impl Ctx {
    fn new(seed: u64, root: PathBuf, tracing: bool) -> Self {
        Self {
            seed,
            root,
            obs: 0xcbf2_9ce4_8422_2325,
            trace: if tracing { Some(Vec::new()) } else { None },
            seq: 0,
            counters: BTreeMap::new(),
            states: Vec::new(),
            mutations: 0,
            faults: 0,
            needs_fault: false,
        }
    }
    /// Feed something observed (an operation and its result) into the run's hash.
    #[inline]
    pub fn obs(&mut self, bytes: &[u8]) {
        let mut h = self.obs;
        for b in bytes {
            h ^= u64::from(*b);
            h = h.wrapping_mul(0x0000_0100_0000_01B3);
        }
        // separator so that ("ab","c") != ("a","bc")
        h ^= 0xff;
        h = h.wrapping_mul(0x0000_0100_0000_01B3);
        self.obs = h;
    }
    #[inline]
    pub fn obs_u64(&mut self, v: u64) {
        self.obs(&v.to_le_bytes());
    }
    #[inline]
    pub fn tracing(&self) -> bool {
        self.trace.is_some()
    }
    /// Record a trace event (closure only evaluated when tracing). Never draws
    /// randomness, never reads a clock.
    #[inline]
    pub fn event(&mut self, f: impl FnOnce() -> Value) {
        let n = self.seq;
        self.seq += 1;
        if let Some(t) = self.trace.as_mut() {
            let mut v = f();
            if let Some(o) = v.as_object_mut() {
                o.insert("n".into(), json!(n));
            }
            t.push(v);
        }
    }
    #[inline]
    pub fn count(&mut self, label: &str) {
        self.count_n(label, 1);
    }
    pub fn count_n(&mut self, label: &str, n: u64) {
        if let Some(c) = self.counters.get_mut(label) {
            *c += n;
        } else {
            self.counters.insert(label.to_string(), n);
        }
    }
    /// A fault of the given kind actually fired.
    pub fn fault(&mut self, kind: &str) {
        self.faults += 1;
        let mut l = String::with_capacity(6 + kind.len());
        l.push_str("fault:");
        l.push_str(kind);
        self.count(&l);
    }
    /// A rare branch we care about was reached.
    pub fn reached(&mut self, label: &str) {
        let mut l = String::with_capacity(8 + label.len());
        l.push_str("reached:");
        l.push_str(label);
        self.count(&l);
    }
    /// Hash of the abstract (model) state after a step.
    #[inline]
    pub fn state(&mut self, h: u64) {
        self.states.push(h);
    }
    pub fn hash_of(bytes: &[u8]) -> u64 {
        fnv1a(bytes)
    }
}

pub struct RunOutput {
    pub violation: Option<Violation>,
    /// a panic outside code under test, or another harness-side failure
    pub harness_error: Option<String>,
    pub trace: Vec<Value>,
    pub trace_hash: u64,
    pub nontrivial: bool,
    pub counters: BTreeMap<String, u64>,
    pub states: Vec<u64>,
    pub virt_ns: u64,
    pub hung: bool,
}

/// Index of the run being generated within its batch (u64::MAX outside a batch). Scenarios with an
/// enumerated arm map low indices to the i-th element of a small exhaustive space instead of drawing.
static RUN_INDEX: std::sync::atomic::AtomicU64 = std::sync::atomic::AtomicU64::new(u64::MAX);
pub fn set_run_index(i: u64) {
    RUN_INDEX.store(i, Ordering::SeqCst);
}
pub fn run_index() -> u64 {
    RUN_INDEX.load(Ordering::SeqCst)
}

pub trait Scenario: Sync + Send + 'static {
    type Case: Serialize + DeserializeOwned + Clone + Send + 'static;

    fn property(&self) -> &'static str;
    fn name(&self) -> &'static str;
    /// "exploration" | "fault_enumeration"
    fn level(&self) -> &'static str;
    /// How cases are generated and what makes one non-trivial / distinct.
    fn rule(&self) -> &'static str;
    fn assumptions(&self) -> Vec<&'static str>;
    /// component → "real" | "stub" | "simulated" | "model"
    fn components(&self) -> Vec<(&'static str, &'static str)>;
    /// Number of runs for a tier.
    fn runs(&self, tier: Tier) -> u64;
    /// What one "evaluation" is, for the evidence (default: one run).
    fn eval_unit(&self) -> &'static str {
        "run"
    }
    fn generate(&self, rng: &mut Rng, tier: Tier) -> Self::Case;
    /// Execute one case against the real code and the model. Must be a pure function
    /// of `case` (and the seams, which are reset per run).
    fn execute(&self, case: &Self::Case, ctx: &mut Ctx) -> Option<Violation>;
    /// One-step smaller candidates, most aggressive first.
    fn shrink(&self, case: &Self::Case) -> Vec<Self::Case>;
    /// Real-time watchdog per run, milliseconds.
    fn watchdog_ms(&self) -> u64 {
        20_000
    }
    /// Whether a panic in code under test is a violation of this property.
    fn panic_is_violation(&self) -> bool {
        true
    }
    /// Called once per process before its first run, inside a pseudo-run with a fixed entropy stream:
    /// the place to create process-wide singletons of the code under test, so that no run pays for
    /// (or observes) their one-time initialisation.
    fn process_init(&self) {}
}

// ---------------------------------------------------------------------------------------
// panic capture
// ---------------------------------------------------------------------------------------

static LAST_PANIC: Mutex<Option<(String, String)>> = Mutex::new(None);
static PANIC_COUNT: AtomicU64 = AtomicU64::new(0);

pub fn install_panic_hook() {
    std::panic::set_hook(Box::new(|info| {
        let loc = info.location().map(|l| format!("{}:{}", l.file(), l.line())).unwrap_or_default();
        let msg = if let Some(s) = info.payload().downcast_ref::<&str>() {
            (*s).to_string()
        } else if let Some(s) = info.payload().downcast_ref::<String>() {
            s.clone()
        } else {
            "<non-string panic>".to_string()
        };
        PANIC_COUNT.fetch_add(1, Ordering::SeqCst);
        if std::env::var_os("SIM_DEBUG_PANICS").is_some() {
            eprintln!("PANIC at {loc}: {msg}");
        }
        if let Ok(mut g) = LAST_PANIC.lock() {
            // keep the first panic of a run
            if g.is_none() {
                *g = Some((loc, msg));
            }
        }
    }));
}
pub fn take_panic() -> Option<(String, String)> {
    LAST_PANIC.lock().ok().and_then(|mut g| g.take())
}
pub fn panic_count() -> u64 {
    PANIC_COUNT.load(Ordering::SeqCst)
}
/// Is this panic location inside the code under test?
pub fn panic_in_sut(loc: &str) -> bool {
    // everything not in the simulator's own sources: /repo crates and their dependencies
    !loc.contains("/verif/sim/") && !loc.starts_with("src/")
}

// ---------------------------------------------------------------------------------------
// per-run isolation
// ---------------------------------------------------------------------------------------

static SANDBOX_SEQ: AtomicU64 = AtomicU64::new(0);

pub fn sandbox_base() -> PathBuf {
    let pid = std::process::id();
    let base = if std::path::Path::new("/dev/shm").is_dir() { "/dev/shm" } else { "/tmp" };
    PathBuf::from(format!("{base}/cascette-sim.{pid:08}"))
}

fn rm_rf(p: &std::path::Path) {
    let _ = std::fs::remove_dir_all(p);
}

/// Run `f` on a fresh OS thread with all seam state reset and an empty sandbox dir.
/// Returns None if the run did not finish within `watchdog_ms` of real time.
pub fn isolated<T: Send + 'static>(
    seed: u64,
    tracing: bool,
    watchdog_ms: u64,
    f: impl FnOnce(&mut Ctx) -> T + Send + 'static,
) -> Option<(std::thread::Result<T>, Ctx, u64)> {
    // A fixed directory name per process: the sandbox path is visible to the code under
    // test (and ends up in error strings), so it must not depend on how many runs the
    // worker has executed before.
    let _ = SANDBOX_SEQ.fetch_add(1, Ordering::Relaxed);
    let root = sandbox_base().join("run");
    rm_rf(&root);
    std::fs::create_dir_all(&root).expect("create sandbox");
    let root_s = root.to_string_lossy().into_owned();
    let _ = take_panic();

    let (tx, rx) = std::sync::mpsc::channel();
    let root2 = root.clone();
    let handle = std::thread::Builder::new()
        .name("sim-run".into())
        .stack_size(16 << 20)
        .spawn(move || {
            let mut ctx = Ctx::new(seed, root2, tracing);
            seams::mark_run_thread();
            seams::disk_begin(&root_s);
            seams::begin_run(crate::prng::mix(seed ^ 0xE47_0A11));
            let r = std::panic::catch_unwind(std::panic::AssertUnwindSafe(|| f(&mut ctx)));
            let virt = seams::virt_elapsed_ns();
            seams::end_run();
            seams::disk_end();
            let _ = tx.send((r, ctx, virt));
        })
        .expect("spawn run thread");

    // Wait with a real-time watchdog that never touches the virtual clock.
    let start = seams::real_mono_ns();
    let mut spins = 0u32;
    let out = loop {
        match rx.try_recv() {
            Ok(v) => break Some(v),
            Err(std::sync::mpsc::TryRecvError::Disconnected) => break None,
            Err(std::sync::mpsc::TryRecvError::Empty) => {}
        }
        spins += 1;
        if spins < 2000 {
            std::thread::yield_now();
        } else {
            seams::real_sleep_ms(if spins < 2200 { 0 } else { 1 });
            if (seams::real_mono_ns() - start) / 1_000_000 > watchdog_ms {
                // hung: the run thread is abandoned; the caller must end the process
                seams::end_run();
                seams::disk_end();
                return None;
            }
        }
    };
    let _ = handle.join();
    rm_rf(&root);
    out
}

// ---------------------------------------------------------------------------------------
// type-erased adapter
// ---------------------------------------------------------------------------------------

pub trait DynScenario: Sync + Send {
    fn property(&self) -> &'static str;
    fn name(&self) -> &'static str;
    fn level(&self) -> &'static str;
    fn rule(&self) -> &'static str;
    fn assumptions(&self) -> Vec<&'static str>;
    fn components(&self) -> Vec<(&'static str, &'static str)>;
    fn runs(&self, tier: Tier) -> u64;
    fn eval_unit(&self) -> &'static str;
    fn generate_json(&self, seed: u64, tier: Tier) -> Value;
    fn run_seed(&self, seed: u64, tier: Tier, tracing: bool) -> RunOutput;
    fn run_json(&self, seed: u64, case: &Value, tracing: bool) -> Result<RunOutput, String>;
    fn shrink_json(&self, case: &Value) -> Vec<Value>;
}

pub struct Erased<S: Scenario>(pub std::sync::Arc<S>);

fn run_case<S: Scenario>(s: &std::sync::Arc<S>, seed: u64, case: S::Case, tracing: bool) -> RunOutput {
    static INIT: std::sync::Once = std::sync::Once::new();
    INIT.call_once(|| {
        let s3 = s.clone();
        let _ = std::thread::spawn(move || {
            crate::seams::begin_run(0x1217_C0DE);
            s3.process_init();
            crate::seams::end_run();
        })
        .join();
    });
    let s2 = s.clone();
    let res = isolated(seed, tracing, s.watchdog_ms(), move |ctx| s2.execute(&case, ctx));
    match res {
        None => RunOutput {
            violation: None,
            harness_error: None,
            trace: vec![],
            trace_hash: 0,
            nontrivial: false,
            counters: BTreeMap::new(),
            states: vec![],
            virt_ns: 0,
            hung: true,
        },
        Some((r, mut ctx, virt)) => {
            let mut harness_error = None;
            let violation = match r {
                Ok(v) => {
                    // a panic inside a spawned task is caught by the runtime; the hook saw it
                    if v.is_none() {
                        if let Some((loc, msg)) = take_panic() {
                            if panic_in_sut(&loc) && s.panic_is_violation() {
                                Some(Violation::new(
                                    &format!("{}.no_panic", s.property()),
                                    "panic_in_task",
                                    format!("{}/{}/panic/{}", s.property(), s.name(), short_loc(&loc)),
                                    format!("panic in a spawned task at {loc}: {msg}"),
                                ))
                            } else if !panic_in_sut(&loc) {
                                harness_error = Some(format!("panic in harness task at {loc}: {msg}"));
                                None
                            } else {
                                None
                            }
                        } else {
                            None
                        }
                    } else {
                        let _ = take_panic();
                        v
                    }
                }
                Err(_) => {
                    let (loc, msg) = take_panic().unwrap_or_default();
                    if panic_in_sut(&loc) {
                        if s.panic_is_violation() {
                            Some(Violation::new(
                                &format!("{}.no_panic", s.property()),
                                "panic",
                                format!("{}/{}/panic/{}", s.property(), s.name(), short_loc(&loc)),
                                format!("panic in code under test at {loc}: {msg}"),
                            ))
                        } else {
                            ctx.count("sut_panics_not_judged");
                            None
                        }
                    } else {
                        harness_error = Some(format!("harness panic at {loc}: {msg}"));
                        None
                    }
                }
            };
            if let Some(v) = &violation {
                ctx.event(|| json!({"k":"check","oracle":v.oracle,"class":v.class,"detail":v.detail}));
            }
            let nontrivial = ctx.mutations >= 2 && (!ctx.needs_fault || ctx.faults >= 1);
            RunOutput {
                violation,
                harness_error,
                trace_hash: ctx.obs,
                trace: ctx.trace.take().unwrap_or_default(),
                nontrivial,
                counters: std::mem::take(&mut ctx.counters),
                states: std::mem::take(&mut ctx.states),
                virt_ns: virt,
                hung: false,
            }
        }
    }
}

fn short_loc(loc: &str) -> String {
    // crates/<crate>/src/...:<line> without the absolute prefix
    loc.rsplit_once("/crates/").map(|(_, b)| b.to_string()).unwrap_or_else(|| {
        loc.rsplit('/').next().unwrap_or(loc).to_string()
    })
}

impl<S: Scenario> DynScenario for Erased<S> {
    fn property(&self) -> &'static str {
        self.0.property()
    }
    fn name(&self) -> &'static str {
        self.0.name()
    }
    fn level(&self) -> &'static str {
        self.0.level()
    }
    fn rule(&self) -> &'static str {
        self.0.rule()
    }
    fn assumptions(&self) -> Vec<&'static str> {
        self.0.assumptions()
    }
    fn components(&self) -> Vec<(&'static str, &'static str)> {
        self.0.components()
    }
    fn runs(&self, tier: Tier) -> u64 {
        self.0.runs(tier)
    }
    fn eval_unit(&self) -> &'static str {
        self.0.eval_unit()
    }
    fn generate_json(&self, seed: u64, tier: Tier) -> Value {
        let mut rng = Rng::new(seed);
        serde_json::to_value(self.0.generate(&mut rng, tier)).unwrap_or(Value::Null)
    }
    fn run_seed(&self, seed: u64, tier: Tier, tracing: bool) -> RunOutput {
        let mut rng = Rng::new(seed);
        let case = self.0.generate(&mut rng, tier);
        run_case(&self.0, seed, case, tracing)
    }
    fn run_json(&self, seed: u64, case: &Value, tracing: bool) -> Result<RunOutput, String> {
        let case: S::Case = serde_json::from_value(case.clone()).map_err(|e| format!("bad case: {e}"))?;
        Ok(run_case(&self.0, seed, case, tracing))
    }
    fn shrink_json(&self, case: &Value) -> Vec<Value> {
        let Ok(case) = serde_json::from_value::<S::Case>(case.clone()) else {
            return vec![];
        };
        self.0.shrink(&case).into_iter().filter_map(|c| serde_json::to_value(c).ok()).collect()
    }
}

// ---------------------------------------------------------------------------------------
// generic shrink helpers
// ---------------------------------------------------------------------------------------

/// Candidates obtained by deleting chunks (halves, quarters, …, singles) of a vector.
pub fn shrink_vec<T: Clone>(xs: &[T]) -> Vec<Vec<T>> {
    let n = xs.len();
    let mut out = Vec::new();
    if n == 0 {
        return out;
    }
    let mut chunk = n.div_ceil(2);
    loop {
        let mut start = 0;
        while start < n {
            let end = (start + chunk).min(n);
            let mut v = Vec::with_capacity(n - (end - start));
            v.extend_from_slice(&xs[..start]);
            v.extend_from_slice(&xs[end..]);
            out.push(v);
            start = end;
        }
        if chunk == 1 {
            break;
        }
        chunk = chunk.div_ceil(2);
        if out.len() > 400 {
            break;
        }
    }
    out
}

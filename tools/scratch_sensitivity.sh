#!/bin/bash
# Every seeded change must make its property's quick check exit 1 - run against a scratch worktree and a
# scratch copy of the simulator (tools/scratch_check.sh), never /repo.
cd /verif || exit 2
fail=0
for d in seeded/*/; do
  id=$(basename $d)
  prop=$(python3 -c "import json;print(json.load(open('$d/meta.json'))['property'])")
  out=$(tools/scratch_check.sh /verif/$d/patch.diff $prop 2>&1 | grep -E " exit=|does not apply|BUILD FAILED" | head -1)
  echo "$id $prop: $(echo $out | cut -c1-90)"
  echo "$out" | grep -q " exit=1 " || fail=1
done
exit $fail

#!/bin/bash
# usage: tools/confirm_mutant.sh <worktree> <crate> <demo-test-name>
# Confirms in the scratch worktree: (1) existing tests of the crate pass with the change,
# (2) the demo fails with the change, (3) the demo passes without it.
# (No `git stash`: the stash stack is shared between all worktrees of a repository.)
wt="$1"; crate="$2"; demo="$3"
cd "$wt" || exit 2
export CARGO_NET_OFFLINE=true
p=$(mktemp /tmp/confirm.XXXXXX.patch)
git diff -- . ':!MUTANT_PATCH.diff' > "$p"
echo "== existing tests with the change (lib, demo excluded)"
cargo test -p "$crate" --offline --lib 2>&1 | grep -E "^test result|FAILED|^error" | head -3
echo "== demo with the change (expected: FAIL)"
cargo test -p "$crate" --offline --test "$demo" 2>&1 | grep -E "^test result|^error" | head -2
git apply -R "$p"
echo "== demo without the change (expected: ok)"
cargo test -p "$crate" --offline --test "$demo" 2>&1 | grep -E "^test result|^error" | head -2
git apply "$p"; rm -f "$p"
git status --short | head -5

#!/bin/bash
# usage: tools/confirm_mutant.sh <worktree> <crate> <demo-test-name>
# Confirms in the scratch worktree: (1) existing tests of the crate pass with the change,
# (2) the demo fails with the change, (3) the demo passes without it.
wt="$1"; crate="$2"; demo="$3"
cd "$wt" || exit 2
export CARGO_NET_OFFLINE=true
echo "== existing tests with the change (lib + doc, demo excluded)"
cargo test -p "$crate" --offline --lib 2>&1 | grep -E "^test result|FAILED|^error" | head -3
echo "== demo with the change (expected: FAIL)"
cargo test -p "$crate" --offline --test "$demo" 2>&1 | grep -E "^test result|^error" | head -2
git stash -q
echo "== demo without the change (expected: ok)"
cargo test -p "$crate" --offline --test "$demo" 2>&1 | grep -E "^test result|^error" | head -2
git stash pop -q
git status --short | head -5

#!/usr/bin/env python3
"""Regenerate /verif/MANIFEST.json from the table below (single source of truth)."""
import json, os, subprocess, sys

HERE = os.path.dirname(os.path.dirname(os.path.abspath(__file__)))

NA_PURE = {
    "C01": "pure function of (builder program, payload bytes, modes, keys): no schedule, clock, I/O fault, crash or history for a simulator to vary; input-space generation against an independent decoder is a different technique (DESIGN.md section 3, C01)",
    "C02": "pure function of one input byte string per parse call; the oracle (no panic/abort/huge allocation) needs an input generator and an allocator monitor, not a simulator (DESIGN.md section 3, C02)",
    "C03": "pure function of the key/value set handed to a builder; deterministic, single-threaded, in memory; nothing to schedule or fault (DESIGN.md section 3, C03)",
    "C08": "pure function of an input byte string (parse, build, parse, build); no nondeterminism or fault in the statement (DESIGN.md section 3, C08)",
    "C09": "pure functions of (key, IV, data); the only configuration is the CPU feature set, which is neither a fault nor a schedule (DESIGN.md section 3, C09)",
    "C16": "pure function of (old, new, builder options, buffer size); the statement quantifies over contents and options, not over how a reader delivers bytes (DESIGN.md section 3, C16)",
    "C18": "deterministic function of (file bytes, span set, buffer budget) and of the segment population given to the planner; performs file I/O but the statement contains no fault, crash or schedule (DESIGN.md section 3, C18)",
    "C19": "pure function of a builder program; no schedule, clock, fault or history (DESIGN.md section 3, C19)",
    "C20": "a statement over all key/endpoint strings; deciding it means generating strings and watching paths, which is input generation, not simulation (DESIGN.md section 3, C20)",
}

# property -> (level, technique, text, note, design_ref)
CHECKS = {
    "C17": (
        "exploration",
        "deterministic simulation: seeded operation histories against a textbook-LRU reference model, real checkpoint files, clean restarts",
        "Seeded search over operation histories (touch/remove/evict/checkpoint/reload/restart) on the real LruManager with real files in a per-run sandbox; after every operation length, membership and full recency order are compared with a textbook LRU, and at the end the tracker must still hold its full capacity. Sampling, not proof; short histories over capacity<=3 are hit many times each. The first run indices of every batch enumerate ALL histories up to length 3 (quick) / 5 (thorough) over a 17-symbol alphabet for capacities 1-3 and 4 keys, independent of the seed. run_cycle limits reach from one entry to 2^32 average-sized entries and just above, powers of two and u64::MAX. One seeded run in 400 has a table of 1000 - 1 000 000 slots; one run in five fills the table with active entries mid-history; cold restarts. One run in eight is generation-heavy (>= 9 ops, three quarters bump / checkpoint / load) so that several checkpoint files exist side by side; loads select the latest, current, previous, OLDEST or a missing checkpoint; which older file a checkpoint may delete is carried by the model across loads (bumps and restarts decide it).",
        "Trusted: the reference LRU (40 lines), tmpfs semantics for whole-file write/read, the libc interposition layer (clock/entropy). Crash during checkpoint is C06, not here.",
        "3/C17",
    ),
}

CHECKS["C10"] = (
    "exploration",
    "deterministic simulation: seeded cache histories under a virtual clock (interposed clock_gettime + paused tokio) against a map-with-expiry model; drop-and-recreate for the disk cache",
    "Seeded search over put/put_with_ttl/get/contains/remove/clear/size/stats/advance(/recreate) histories on the real MemoryCache (all five policies, limits from 1 entry / 1 byte) and DiskCache (sub-directories, background tasks) with every clock read virtual: each read is judged 'latest value or nothing' against the model, bounds are checked after every operation, reported size/usage against a probe of every key, and TTL behaviour across instances at generated instants before/after expiry. Sampling, not proof. size()/stats() are judged mid-run between what is certainly retrievable and what may still be present; TTLs include Duration::MAX and 584 years, max_entries includes usize::MAX. Keys are spelled k<i> or, in one run in three, with dots (obj.<i>, versions-1.15.<i>, k<i> / k<i>.idx: equal up to the last dot, or one a prefix of the other). max_entries 1-23 / 1000 / usize::MAX, default TTL none / 1 h / 50 ms / 0, one disk run in 150 with a 16 MiB value, one run in eight with identical values under different keys.",
    "Trusted: the model (relaxation: 'nothing' is accepted whenever an eviction was possible since the put), libc interposition of the clock, tokio's paused clock, tmpfs. Reads within 1us of an expiry instant are not judged.",
    "3/C10",
)
CHECKS["C05"] = (
    "exploration",
    "deterministic simulation: seeded long bucket-targeted histories with save + reload into fresh instances against BTreeMap reference models",
    "Seeded search over index histories (single operations and bursts of up to 1400 entries aimed at one bucket so the bounded update section fills) and residency histories (incl. the >10000-key batch delete path), each compared operation by operation with a BTreeMap model: lookups of touched and never-inserted keys, counts, enumeration, truthfulness of returned booleans, and the same after save + load into a fresh manager on the same directory. The residency database is also driven through its ResidencyContainer wrapper, with the all-zero 16-byte key and delete batches at 9999/10000/10001 keys. Burst keys in ascending or pseudo-random key order; status updates in bursts; delete batches made of existing keys.",
    "Trusted: the BTreeMap models, tmpfs. Zero-prefix keys excluded (format's empty marker). Crash during save is C06.",
    "3/C05",
)

CHECKS["C04"] = (
    "exploration",
    "deterministic simulation: seeded write/read/remove/flush/reopen histories over the real store front ends against a map model, clean restarts on the same directory",
    "Seeded search over histories of writes (size patterns: large-then-small, shrinking, growing, equal, doubling; payload classes incl. BLTE look-alikes and nested BLTE files), reads of any earlier key, queries, removes, flushes and reopen on DynamicContainer, Installation and bare ArchiveManager (None/ZLib/LZ4); after every operation the newest and one older object are read back and compared byte for byte with the model, all objects at the end and after each reopen. The key argument handed to DynamicContainer::write is varied (encoding key / content key / unrelated bytes); objects are always read back by encoding key, the Installation's index must list every written object, reads use exact-size buffers for every third object. Payloads include the stored image of an object written earlier in the same run (its mode-N / ZLib BLTE file, local header + image, its encoding key, its content key). One container run in 100 writes 1261-3700 small objects into ONE index bucket (then flush, more writes, reopen); Installation objects are also read through the location their index entry gives (bypassing its read cache).",
    "Trusted: the map model; the encoding key rule MD5(BLTE(single_chunk)) computed through cascette-formats; tmpfs + mmap semantics. Sizes up to 256 KiB (the defect class is about the mapping not growing at all, not about 64 MiB). Crash is C06.",
    "3/C04",
)

CHECKS["C06"] = (
    "fault_enumeration",
    "deterministic simulation with crash-point enumeration: seeded histories, the save's real syscalls recorded at the libc boundary, every crash index x tear variant materialised and recovered by the real loader",
    "For each generated save (index buckets via save_all/flush_*, residency DB, LRU checkpoint with/without bump and shutdown, disk-cache put) the mutating syscalls the code really issues are recorded by libc interposition; every crash index, every chosen prefix of an in-flight write (process death) and every tear variant of un-synced content (power loss: nothing/prefixes/zeros/stale) is materialised as a directory and recovered by a fresh real loader, which must succeed, show exactly S_old or S_new per object, and stay usable. Complete over crash points within each generated instance; the instances are sampled. One history in three has the object loaded back from disk before it is mutated and saved under the recorder; residency and LRU also start from 'nothing ever saved'; LRU tables up to 64 slots and residency buckets beyond one page give multi-page files; the recovered image is also checked through scan_keys()/size() and by a further flush whose whole content is compared. For the residency database the further save is re-loaded and its scan_keys() must be exactly recovered state + fresh key (nothing left over from the interrupted save may leak into it). LRU: in one run in four the recovering manager and its successor have another capacity than the crashed one. Histories include tombstone bursts, status updates, residency spans and 3700-entry buckets (sorted section past 64 KiB).",
    "Trusted: the persistence models P and D (DESIGN.md 2.5) - D is a model of a journalling file system, not an observation; the recorder (checked against strace by the seam self-test); S_old for the index is what the real loader sees before the save.",
    "3/C06",
)

CHECKS["C07"] = (
    "fault_enumeration",
    "deterministic simulation with corruption enumeration: real writers -> simulated storage/transport that flips, substitutes, truncates, extends -> real readers; seeded put/corrupt/get sequences on the validating caches",
    "Per generated artifact instance every single-bit flip (plus byte substitutions of one byte and of two bytes 1-16 apart - swapped or XORed with one delta -, every truncation length, extensions) inside the region its checksum is defined over is applied and the real reader must refuse; for the validating caches seeded sequences of validated put / corrupt or delete the backing file / validated get must never return bytes whose MD5 differs from the requested key and must not serve an entry after corruption was detected. Exhaustive over bit positions for artifacts <= 4 KiB; instances are sampled. Whole .idx files (pending update entries) and residency files written by the real save paths are corrupted and read back by the real loaders (IndexManager::load_all, ResidencyDb::load), not only by the stand-alone validators; the checksum bytes themselves are part of the protected region. Whole .idx and residency files span one to four pages of pending entries. Also files planted at a key's backing path, empty and identical values, encoding tables of several pages per table, V1 MIME framed the way the official service frames it.",
    "Trusted: the protected region per artifact is taken from the checksum's definition in the code's documentation; 'accepted with logically equal content' is not judged. Single corruptions only.",
    "3/C07",
)

CHECKS["C14"] = (
    "fault_enumeration",
    "deterministic simulation under a virtual clock: scripted outcome sequences x policy grid through the real RetryPolicy::execute, every delay measured exactly on tokio's paused clock, jitter from the seeded entropy seam",
    "Every policy of the property's grid (3000 policies, also built through from_env) is executed against all outcome sequences up to length 3 and a seeded sample of longer ones; number of invocations, stop-at-first-success/definitive-error, returned result, exact delay per attempt (hint or clamped exponential step, +<=30% jitter), absence of panics and completion within a virtual-time budget are checked per execution. Enumerates the policy grid completely per cycle; longer sequences are sampled. Run i of a batch takes policy i mod 3000 of the grid; one run in eight builds its policy from raw environment strings (huge, negative, fractional, garbage, padded, unset) through an interposed getenv; hints include u64::MAX seconds; whether an error is retryable is asked of the error itself (should_retry). One run in six additionally drives the real CdnClient::download_with_retry over the simulated HTTP transport (per-request behaviour queues: 5xx, 429 with/without/unparsable Retry-After, 4xx, refused, reset, time-out, broken body): number of requests, waits between a request's failure and the next request's start, stop conditions and the returned error are judged by the same rules. Retry budgets of 255-70000 (through from_env) run a few sequences to the end of the budget with an exact expected count. Attempts that take up to an hour of virtual time, back-offs in nanoseconds, budgets at the edges of 32 bits, Retry-After in unparsable forms.",
    "Trusted: tokio's paused clock (1 ms timer granularity allowed on the upper side), the classification table in the property text. For non-finite/negative multipliers only bounds are judged. Two readings of the clamp and of whether hinted retries advance the exponent are both accepted.",
    "3/C14",
)

CHECKS["C12"] = (
    "exploration",
    "deterministic simulation: seeded multi-layer histories with injected corruption/deletion of the disk layers' files under a virtual clock, per-key 'latest value / what each layer may hold' model, virtual-time and real-time liveness watchdogs",
    "Seeded search over histories of the full multi-layer API on 2-3 layers with a tiny first layer (eviction in almost every run), every promotion strategy, validation hooks on/off, interleaved with disk faults and clock advances; each read is judged against the latest put (never an older value, nothing only when no layer certainly holds it), no layer answers after remove/clear, validated reads return only bytes hashing to the key and drop detected corruption everywhere, and every call returns (a run that blocks is reported as a hang with its history). Also: validated reads asking for a content key the stored value does not hash to, put_with_validation_and_ttl, every layer probed right after remove/clear. One run in six (with a disk layer) reopens the cache once on the same directories. Calls naming a layer that does not exist, wrong-way promotions, empty batches and batches of 64.",
    "Trusted: the model's relaxations (possible eviction, tainted keys not judged on un-validated reads, deleted files may surface as I/O errors from single-layer reads), libc/tokio virtual clocks, the 4 s real-time watchdog for blocking deadlocks.",
    "3/C12",
)

CHECKS["C11"] = (
    "exploration",
    "deterministic simulation of thread interleavings: real threads under a baton controller, seeded (random / PCT) choice of the next runner at every sched_point hook, Wing-Gong/Lowe linearizability search against the sequential cache specification, accounting check at quiescence",
    "Seeded search over schedules of 2-3 tasks x 1-3 operations on one shared MemoryCache / DiskCache (1-2 keys, unique values, optional expired entry left by a sequential setup) or one shared DynamicContainer (write/read/query/remove on 1-2 encoding keys): every interleaving decision at the ~40 hook sites (between map operations, counter updates, temp-file open/write/fsync/rename, index update; for the container between archive write, index add and save, and inside the index temp-file protocol while the index lock is held through a try-lock wrapper) is drawn from the seed and recorded; histories stamped with a global sequence number are checked for linearizability, spurious errors, torn/foreign values, deadlock, and size()/usage against a probe of every key (container: a fresh instance on the same directory against the live one) once all tasks finished. In one run in six all puts of a key carry identical bytes. Dotted key spellings, hashed sub-directories, and (a quarter of the disk runs) a setup performed by an earlier instance on the same directory.",
    "Trusted: the sequential specification (map with expired-but-present entries), the hook placement (interleavings are explored at hook granularity under sequential consistency; nothing inside a DashMap operation or a held std lock; no weak-memory effects); for the container the set specification (fixed content per key) and the rule that an Err is tolerated only for an operation overlapping a mutator of the same key.",
    "3/C11",
)

CHECKS["C13"] = (
    "exploration",
    "deterministic simulation of the three-endpoint fail-over chain: real RibbitTactClient on an in-process simulated network (scripted endpoint behaviours, seeded TCP segmentation and latency, refused/reset/closed/stalled connections) under tokio's paused clock and the interposed libc clock; executable decision table + cache/TTL model + metamorphic re-runs over segmentations",
    "Seeded search over assignments of behaviours to the three endpoints x endpoint classes x memory/disk protocol cache x TCP segmentations x scripts of query/advance/new-client/swap-behaviours: the request log must be the decision table's prefix of [https, http, tcp], the result Ok iff the stopping endpoint answered well-formed with exactly the document it served, good answers are served from cache with zero network events until the TTL and not after, failures are never cached, and the same script under other segmentations of the same TCP bytes gives identical outcomes. HTTP behaviours include every 5xx/4xx class, a 429 without and with Retry-After in every form (delay seconds, 0, HTTP date, fractional, negative, > u64, a word), and a response whose body stream breaks or stalls after the status line (delivered as a genuine reqwest body error); hops can be disabled by configuration; the request actually sent and the rows returned (against the generated text, not the parser under test) are checked. One run in eight is a CDN run: the real CdnClient (download, download_archive_index) + ProtocolCache over the simulated HTTP transport with per-request behaviour queues, clock jumps around the configured TTLs and new clients on the same directory; a cached object costs no request before its TTL and one after, a failed or truncated download is never cached or returned as Ok, requests name the caller's object, bytes equal what was served. One disk-cache run in six has its cache files emptied or overwritten once (nothing usable is cached afterwards: the chain must be walked). Documents up to 40 KiB, a 9000-byte value, a header line over 512 bytes, V1 MIME with a signature part, and (one run in four) a query for a second endpoint through the same client and cache.",
    "Trusted: the decision table written from the property text; the stubbed transport boundary (kernel TCP, TLS, hyper and reqwest's pool are not exercised; transport failures surface as ProtocolError::Network/Timeout); 10 ms clock-coupling granularity; queries within 10 s of a TTL boundary are not judged.",
    "3/C13",
)

CHECKS["C15"] = (
    "exploration",
    "deterministic simulation of the real Ribbit server and the real clients on one simulated network: generated build databases, concurrent well-formed (TCP v1 MIME+checksum, TCP v2, HTTP via the real axum Router) and malformed/slow/never-terminated clients at seeded virtual times, seeded segmentation and latency, bounded-liveness probe",
    "Seeded search over databases the server accepts x concurrent client mixes x segmentations: every row the project's own client parses must equal, field by typed field, the record with the chronologically newest build_time of the product; malformed requests must end in an error reply or a closed connection within 10 s + 1 s of virtual time; no task may panic; a fresh well-formed request sent after the last malformed client started must be answered correctly within 1 virtual second. Database strings include look-alikes of the wire framing and of the client's format sniffing; product names include spaces, non-ASCII, URL-special characters, dot segments and route words; 18 kinds of malformed request. One database in twenty has a long product name (200-4000 bytes; request line just below / at / above 1 KiB). Database shapes: one time-of-day (first 19 bytes of build_time) for all records with differing fractions of a second / offsets behind it (one database in eight), dates across years, build numbers at 32-bit edges, twin product names, hundreds of builds or products, repeated record ids, shared timestamps, sparse JSON, several server CDN configurations.",
    "Trusted: the independent expectation model (response layout per region, RFC 3339 ordering), the stubbed transport boundary (no kernel TCP / hyper framing), product names restricted to request-safe characters.",
    "3/C15",
)

PENDING = {}


def main():
    props = [json.loads(l)["id"] for l in open(os.path.join(HERE, "properties.jsonl"))]
    hook_commits = []
    hc = os.path.join(HERE, "hook_commits.txt")
    if os.path.exists(hc):
        hook_commits = [l.split()[0] for l in open(hc) if l.strip() and not l.startswith("#")]
    checks = []
    for pid in props:
        if pid not in CHECKS:
            continue
        level, technique, text, note, ref = CHECKS[pid]
        checks.append(
            {
                "property_id": pid,
                "quick_cmd": f"./check {pid} quick",
                "thorough_cmd": f"./check {pid} thorough",
                "evidence_file": f"/verif/evidence/{pid}.json",
                "replay_cmd_template": f"./check {pid} --replay {{path}}",
                "engine": "cascette-sim",
                "level_claimed": {"category": level, "text": text, "design_ref": f"DESIGN.md section {ref}"},
                "level_note": note,
                "technique": technique,
            }
        )
    na = []
    for pid in props:
        if pid in CHECKS:
            continue
        if pid in NA_PURE:
            na.append({"property_id": pid, "reason": "not applicable to deterministic simulation: " + NA_PURE[pid]})
        else:
            na.append({"property_id": pid, "reason": PENDING.get(pid, "check designed (DESIGN.md section 3) but not built yet; not claimed")})
    manifest = {
        "version": 1,
        "setup_cmd": "cd /verif/sim && CARGO_NET_OFFLINE=true cargo build --release --offline",
        "hooks": {
            "guard": "cargo feature verif-hooks (cascette-cache, cascette-client-storage, cascette-protocol, cascette-ribbit)",
            "enable": "the simulator crate /verif/sim depends on the /repo crates by path with features=[\"verif-hooks\"]; ./check rebuilds it from /repo's working tree on every invocation",
            "baseline_off_cmd": "cd /repo && cargo nextest run --workspace --no-fail-fast --test-threads 8 --offline || cargo test --workspace --no-fail-fast --offline",
            "source_commits": hook_commits,
            "add_only": True,
        },
        "engines": [
            {
                "name": "cascette-sim",
                "path": "/verif/sim",
                "serves_properties": [c["property_id"] for c in checks],
                "kind_free_text": "deterministic simulator: one seeded xoshiro stream per run decides generated operations, clock jumps, thread schedules, network segmentation/faults and crash points; libc interposition (clock_gettime/getrandom/sched_getaffinity/futex deadlines/file-mutating calls) in the simulator binary gives a virtual clock, deterministic entropy and a recorded disk; reference models as oracles; delta-debugging minimiser; replay files",
            }
        ],
        "checks": checks,
        "not_applicable": na,
        "notes": "Exit codes of every check: 0 = held on everything explored (known findings printed as KNOWN-FINDING lines), 1 = VIOLATION not listed in known_findings.json, 2 = harness error (never prints VIOLATION). VERIF_SEED selects the batch seed (default 20250925).",
    }
    with open(os.path.join(HERE, "MANIFEST.json"), "w") as f:
        json.dump(manifest, f, indent=1)
        f.write("\n")
    # validate if jsonschema is around
    try:
        import jsonschema

        schema = json.load(open("/root/.vp/MANIFEST.schema.json"))
        jsonschema.validate(manifest, schema)
        print("MANIFEST.json valid;", len(checks), "checks,", len(na), "not claimed")
    except ImportError:
        print("MANIFEST.json written (jsonschema not available to validate)")


if __name__ == "__main__":
    main()

#!/bin/bash
# usage: tools/confirm_seeded.sh <seeded-id> <crate> <demo-file-stem>
# Re-creates a scratch worktree of /repo at HEAD, applies seeded/<id>/patch.diff, drops the stored demo test
# into the crate's tests/ directory and runs tools/confirm_mutant.sh there; removes the worktree afterwards
# (the shared target directory /tmp/confirm-target is kept between calls; remove it when done).
id="$1"; crate="$2"; demo="$3"
WT=/tmp/wt-confirm
git -C /repo worktree remove --force $WT 2>/dev/null
git -C /repo worktree add -q --detach $WT HEAD || exit 2
git -C $WT apply /verif/seeded/$id/patch.diff || { echo "patch does not apply"; exit 2; }
mkdir -p $WT/crates/$crate/tests; cp /verif/seeded/$id/$demo.rs $WT/crates/$crate/tests/$demo.rs
echo "#### $id"
CARGO_TARGET_DIR=/tmp/confirm-target /verif/tools/confirm_mutant.sh $WT $crate $demo
git -C /repo worktree remove --force $WT

#!/bin/bash
# usage: tools/scratch_check.sh <patch-file> <prop> [prop...]
# Applies a patch to a SCRATCH worktree of /repo (never /repo itself), builds a scratch copy of the
# simulator against it, runs the quick check of each property (no evidence written, replays kept out
# of /verif) and prints the exit codes. The scratch dirs persist between calls (incremental builds);
# remove them with: tools/scratch_check.sh --clean
T=${SCRATCH_TAG:-}; WT=/tmp/wt-scratch$T; SIMC=/tmp/simcopy2$T; WORK=/tmp/scratchverif$T
if [ "$1" = "--clean" ]; then git -C /repo worktree remove --force $WT 2>/dev/null; rm -rf $SIMC $WORK; exit 0; fi
patch="$1"; shift
export CARGO_NET_OFFLINE=true
head=$(git -C /repo rev-parse HEAD)
if [ ! -d $WT ]; then git -C /repo worktree add -q --detach $WT HEAD || exit 2; fi
git -C $WT checkout -q --detach $head 2>/dev/null; git -C $WT checkout -q -- . ; git -C $WT clean -fdq
mkdir -p $SIMC $WORK
rsync -a --delete --exclude target ${SIM_SRC:-/verif/sim}/ $SIMC/
sed -i "s|/repo/crates|$WT/crates|g" $SIMC/Cargo.toml
rm -rf $WORK/*; cp /verif/known_findings.json $WORK/; cp -r /verif/regressions $WORK/ 2>/dev/null
if ! git -C $WT apply "$patch"; then echo "patch does not apply"; exit 2; fi
if ! (cd $SIMC && cargo build --release --offline > $WORK/build.log 2>&1); then echo "BUILD FAILED"; tail -20 $WORK/build.log; git -C $WT checkout -q -- .; exit 2; fi
for p in "$@"; do
  VERIF_DIR=$WORK $SIMC/target/release/sim run $p quick --no-evidence ${SCRATCH_ARGS:-} > $WORK/out.$p.log 2>&1; code=$?
  echo "$(basename $patch) $p exit=$code $(grep -E '^sim: [0-9]+ runs' $WORK/out.$p.log | cut -c1-160)"
  [ $code -eq 0 ] || grep -E "^VIOLATION|^  signature|^  detail|HARNESS" $WORK/out.$p.log | cut -c1-600 | head -12
done
git -C $WT checkout -q -- . ; git -C $WT clean -fdq

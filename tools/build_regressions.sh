#!/bin/bash
# Builds /verif/regressions/<Cxx>/<finding>.json: for each repaired finding, reverse-apply its fix
# commit(s) in a SCRATCH worktree, run the property's quick check with a scratch copy of the simulator
# built against that worktree, and keep the minimised replay files it writes. /repo is never touched.
# usage: tools/build_regressions.sh [finding ids...]
set -u
WT=/tmp/wt-reg; SIMC=/tmp/simcopy; WORK=/tmp/regwork
LIST="
C17-F1 C17 364b9da
C17-F2 C17 663c5ae
C10-F1 C10 b2a9ded
C10-F2 C10 01d979a
C10-F3 C10 71c4c37
C10-F4 C10 1de2659
C10-F6 C10 03bc525
C10-F7 C10 4deb1bb
C05-F1 C05 a7d044c
C04-F1 C04 08fc594
C04-F2 C04 e90a80e
C04-F3 C04 8902ad6
C06-F1 C06 ee1bd9e
C07-F1 C07 0fddc27 b736e3e
C07-F3 C07 cbe28ca
C07-F4 C07 385f325 0ba294b
C14-F1 C14 df8caca
C14-F2 C14 f8c3f4a
C12-F1 C12 2cd1e3c
C12-F2 C12 f8390fd
C11-F1 C11 4d06c22
C11-F2 C11 b7d6bc2 983d38b
C11-F3 C11 318ba13 6e9fd16
C11-F4 C11 1040c0d
C11-F5 C11 89156ea
C13-F1 C13 b816e76
C13-F2 C13 8d10c89
C13-F4 C13 f069c61
C13-F5 C13 cdd235c
C15-F1 C15 7e9df0f 82b6cca
C15-F3 C15 ba0fe32
C15-F4 C15 7e9df0f
C15-F5 C15 825370f
C15-F6 C15 6bbd3e1
C15-F7 C15 4c0bfb0
C15-F8 C15 3094a2c
"
want="$*"
git -C /repo worktree remove --force $WT 2>/dev/null; git -C /repo worktree add -q --detach $WT HEAD || exit 2
rm -rf $WORK; mkdir -p $WORK $SIMC
rsync -a --delete --exclude target /verif/sim/ $SIMC/
sed -i "s|/repo/crates|$WT/crates|g" $SIMC/Cargo.toml
cp /verif/known_findings.json $WORK/
export CARGO_NET_OFFLINE=true
echo "$LIST" | while read -r id prop commits; do
  [ -n "$id" ] || continue
  if [ -n "$want" ] && ! echo " $want " | grep -q " $id "; then continue; fi
  git -C $WT checkout -q -- . ; git -C $WT clean -fdq
  ok=1
  for c in $commits; do
    if ! git -C $WT show $c | git -C $WT apply -R --3way 2>/dev/null; then ok=0; break; fi
  done
  if [ $ok = 0 ] || git -C $WT diff --name-only --diff-filter=U | grep -q .; then echo "$id: reverse-apply conflicts, skipped"; git -C $WT checkout -q -- . 2>/dev/null; git -C $WT reset -q --hard; continue; fi
  git -C $WT reset -q   # keep working-tree changes, clear index
  if ! (cd $SIMC && cargo build --release --offline >$WORK/build.log 2>&1); then echo "$id: does not build with the fix reverted, skipped"; continue; fi
  rm -rf $WORK/replays
  VERIF_DIR=$WORK $SIMC/target/release/sim run $prop quick --no-evidence > $WORK/out.log 2>&1; code=$?
  n=0
  mkdir -p /verif/regressions/$prop
  for f in $WORK/replays/$prop/*.json; do
    [ -f "$f" ] || continue
    n=$((n+1)); cp "$f" /verif/regressions/$prop/$id-$n.json
    [ $n -ge 3 ] && break
  done
  echo "$id: exit=$code, $n replay file(s) kept: $(grep -E '^  signature' $WORK/out.log | head -3 | tr '\n' ' ')"
done
git -C /repo worktree remove --force $WT; rm -rf $SIMC $WORK

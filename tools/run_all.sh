#!/bin/bash
# usage: tools/run_all.sh <quick|thorough> [props...]   (VERIF_SEED from the environment)
# Runs the registered command of every claimed property, one after the other; prints exit codes.
cd "$(dirname "${BASH_SOURCE[0]}")/.." || exit 2
tier="$1"; shift
props="$*"; [ -n "$props" ] || props="C04 C05 C06 C07 C10 C11 C12 C13 C14 C15 C17"
rc=0
for p in $props; do
  start=$(date +%s)
  out=$(./check "$p" "$tier" ${RUN_ALL_ARGS:-} 2>&1); code=$?
  echo "=== $p $tier exit=$code $(( $(date +%s) - start ))s seed=${VERIF_SEED:-default}"
  echo "$out" | grep -E "^VIOLATION|^  signature|^  detail|HARNESS|^sim: [0-9]+ runs|hung|UNMINIM" | cut -c1-700 | head -20
  [ $code -eq 0 ] || rc=1
done
exit $rc

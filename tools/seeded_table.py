#!/usr/bin/env python3
"""Regenerate the seeded-changes table in DESIGN.md (section 8.5) from /verif/seeded/*/meta.json."""
import json, os
rows = []
for d in sorted(os.listdir('/verif/seeded')):
    m = json.load(open(f'/verif/seeded/{d}/meta.json'))
    br = m['breaks']; br = br if len(br) < 230 else br[:227] + '...'
    rows.append(f"| {d} | {m['property']} | {br} | {m['caught_by']} |")
hdr = "| id | property | change (what a sub-agent that saw only the property text broke) | caught by (quick tier) |\n|----|----------|------|------|\n"
p = '/verif/DESIGN.md'
s = open(p).read()
a = s.index('| id | property | change (what a sub-agent')
b = s.index('Five checks missed a seeded change at first')
s = s[:a] + hdr + "\n".join(rows) + "\n\n" + s[b:]
open(p, 'w').write(s)
print(len(rows), "rows")

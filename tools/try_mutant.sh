#!/bin/bash
# usage: tools/try_mutant.sh <seeded-id> <property> [extra check args]
# Applies /verif/seeded/<id>/patch.diff to /repo, runs the property's quick check (no evidence
# written), reverts /repo. Prints the tail of the output and the exit code.
id="$1"; prop="$2"; shift; shift
cd /verif || exit 2
if ! git -C /repo apply --check "/verif/seeded/$id/patch.diff" 2>/dev/null; then echo "patch does not apply"; exit 2; fi
git -C /repo apply "/verif/seeded/$id/patch.diff"
out=$(./check "$prop" quick --no-evidence "$@" 2>&1); code=$?
git -C /repo checkout -- . ; git -C /repo status --short | grep -v '^??' | head -3
echo "$out" | grep -v "^KNOWN-FINDING" | cut -c1-600 | tail -12
echo "EXIT=$code"
# replays produced by a mutant run are not kept
git -C /verif status --short replays | awk '{print $2}' | xargs -r rm -rf

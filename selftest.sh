#!/bin/bash
# Self-tests of the machinery (not registered as property checks).
#   ./check selftest determinism [N]      per-run observation hashes identical across processes / splits
#   ./check selftest seams                every mutating syscall strace sees under the sandbox is in the recorder's log
#   ./check selftest sensitivity [ids..]  every seeded mutant in /verif/seeded makes its property's quick check exit 1
#   ./check selftest falsealarm [K]       every quick check exits 0 for K other VERIF_SEED values
VERIF_DIR="$(cd "$(dirname "${BASH_SOURCE[0]}")" && pwd)"
SIM="$VERIF_DIR/sim/target/release/sim"
cmd="${1:-}"; shift
EMPTY=$(mktemp -d /dev/shm/emptypath.XXXX)
trap 'rm -rf "$EMPTY" /dev/shm/selftest.$$.*' EXIT
STRACE=$(command -v strace)
ALL="C04 C05 C06 C07 C10 C11 C12 C13 C14 C15 C17"

case "$cmd" in
determinism)
  N="${1:-1500}"
  fail=0
  for p in $ALL; do
    n=$N
    case $p in C06|C07) n=$((N/10));; C13) n=$((N/5));; esac
    a=/dev/shm/selftest.$$.a; b=/dev/shm/selftest.$$.b
    # one process, all indices
    PATH="$EMPTY" "$SIM" selftest hashes $p $n --seed 777 > $a 2>/dev/null
    # four processes, interleaved indices, different process ids / worker counts
    for k in 0 1 2 3; do PATH="$EMPTY" "$SIM" selftest hashes $p $n --seed 777 --stride 4 --offset $k > $b.$k 2>/dev/null & done; wait
    cat $b.0 $b.1 $b.2 $b.3 | sort -n > $b; sort -n $a > $a.s
    if diff -q $a.s $b >/dev/null; then echo "determinism $p: $n runs identical in 1 process and in 4 processes"; else echo "determinism $p: DIFFERENT"; diff $a.s $b | head -5; fail=1; fi
  done
  exit $fail;;
seams)
  # Seam completeness: every kernel entry of a mutating file-system call made anywhere in the process
  # (code under test, its dependencies, std) must have gone through the interposed libc symbols, i.e.
  # strace's per-syscall count for the whole process equals the interposers' pass-through count.
  # A dependency that issued its own raw syscall, or a libc entry point we do not interpose
  # (copy_file_range, sendfile, pwritev, fallocate, truncate, renameat2 via libc), shows as a difference.
  fail=0
  for p in C04 C05 C06 C07 C10 C11 C12 C17; do
    log=/dev/shm/selftest.$$.strace
    SIM_COUNT_SYSCALLS=1 PATH="$EMPTY" "$STRACE" -f -qq -o $log "$SIM" selftest hashes $p 40 --seed 99 > /dev/shm/selftest.$$.out 2> /dev/shm/selftest.$$.err
    cnt() { grep -cE "^[0-9]+ +($1)\(" $log; }
    st="write=$(cnt write) writev=$(cnt writev) pwrite64=$(cnt pwrite64) ftruncate=$(cnt ftruncate) fsync=$(cnt fsync) fdatasync=$(cnt fdatasync) rename=$(cnt 'rename|renameat|renameat2') link=$(cnt 'link|linkat') unlink=$(cnt 'unlink|unlinkat|rmdir') mkdir=$(cnt 'mkdir|mkdirat')"
    rc=$(grep '^RAWCOUNT ' /dev/shm/selftest.$$.err | sed 's/^RAWCOUNT //')
    around=$(grep -cE "^[0-9]+ +(copy_file_range|sendfile|pwritev|pwritev2|fallocate|truncate|sync_file_range|syncfs|sync|io_uring_enter|io_submit)\(" $log)
    if [ "$st" = "$rc" ] && [ "$around" -eq 0 ]; then echo "seams $p: ok ($rc)"; else echo "seams $p: MISMATCH"; echo "  strace : $st around=$around"; echo "  seams  : $rc"; fail=1; fi
  done
  exit $fail;;
sensitivity)
  ids="$*"; [ -n "$ids" ] || ids=$(ls "$VERIF_DIR/seeded")
  fail=0
  for id in $ids; do
    prop=$(python3 -c "import json;print(json.load(open('$VERIF_DIR/seeded/$id/meta.json'))['property'])")
    out=$("$VERIF_DIR/tools/try_mutant.sh" "$id" "$prop" 2>&1 | tail -1)
    echo "sensitivity $id ($prop): $out"
    [ "$out" = "EXIT=1" ] || fail=1
  done
  exit $fail;;
falsealarm)
  K="${1:-5}"; fail=0
  for s in $(seq 1 $K); do
    for p in $ALL; do
      VERIF_SEED=$((${SEED_BASE:-1000}+s*7919)) "$VERIF_DIR/check" $p quick --no-evidence > /dev/shm/selftest.$$.fa 2>&1; code=$?
      if [ $code -ne 0 ]; then echo "falsealarm seed=$((${SEED_BASE:-1000}+s*7919)) $p: exit $code"; grep -E "^VIOLATION|HARNESS" /dev/shm/selftest.$$.fa | head -3; fail=1; fi
    done
    echo "falsealarm: seed $((${SEED_BASE:-1000}+s*7919)) done"
  done
  exit $fail;;
benign)
  # property-preserving changes written by independent sub-agents (/verif/benign): no check may alarm.
  # Runs against a scratch worktree + scratch simulator copy (tools/scratch_check.sh), never /repo.
  fail=0
  for f in "$VERIF_DIR"/benign/${BENIGN_FILTER:-*}.diff; do
    # the properties to check follow from the crates a patch touches
    props=""
    grep -q '^+++ b/crates/cascette-cache/' "$f" && props="$props C10 C11 C12 C07 C13"
    grep -q '^+++ b/crates/cascette-client-storage/' "$f" && props="$props C04 C05 C06 C17 C11 C07"
    grep -q '^+++ b/crates/cascette-protocol/' "$f" && props="$props C13 C14 C15 C07"
    grep -q '^+++ b/crates/cascette-ribbit/' "$f" && props="$props C15 C13"
    grep -q '^+++ b/crates/cascette-formats/\|^+++ b/crates/cascette-crypto/' "$f" && props="$props C04 C07 C13 C15"
    props=$(echo $props | tr ' ' '\n' | sort -u | tr '\n' ' ')
    if [ -n "${BENIGN_LEAN:-}" ]; then
      # lean sets (a full pass over 60 patches x 5-6 properties takes hours): the properties anchored in the crate
      props=""
      grep -q '^+++ b/crates/cascette-cache/' "$f" && props="$props C10 C11 C12"
      grep -q '^+++ b/crates/cascette-client-storage/' "$f" && props="$props C04 C05 C06 C17"
      grep -q '^+++ b/crates/cascette-protocol/' "$f" && props="$props C13 C14"
      grep -q '^+++ b/crates/cascette-ribbit/' "$f" && props="$props C15"
    fi
    out=$("$VERIF_DIR/tools/scratch_check.sh" "$f" $props 2>&1 | grep -E " exit=")
    echo "$out"
    echo "$out" | grep -qv " exit=0 " && fail=1
  done
  "$VERIF_DIR/tools/scratch_check.sh" --clean
  exit $fail;;
*) echo "usage: ./check selftest determinism|seams|sensitivity|falsealarm|benign"; exit 2;;
esac
